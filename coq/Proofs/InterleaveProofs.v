(* InterleaveProofs.v — C16: commuting atomic updates are order-independent; witnesses of lost
   updates for the multi-step cuckoo and Top-K inserts. *)
From GX.Model Require Import Base Bloom CMS HLL Murmur Redis RedisCMS RedisHLL RedisBloom RedisCuckoo
     RedisTopK Cuckoo Interleave.
From GX.Proofs Require Import ListLemmas BloomProofs CMSProofs HLLProofs.
From Coq Require Import Lia ZifyN ZifyNat ZifyBool Permutation.

(* ---------- generic: pairwise commuting state transformers ---------- *)
Section Commute.
Context {S : Type}.
Definition apply_all (fs : list (S -> S)) (s : S) : S := fold_left (fun st f => f st) fs s.

Definition pairwise_commute (fs : list (S -> S)) : Prop :=
  forall f g, In f fs -> In g fs -> forall s, f (g s) = g (f s).

Lemma apply_all_cons f fs s : apply_all (f :: fs) s = apply_all fs (f s).
Proof. reflexivity. Qed.

Lemma apply_commute_one f fs s :
  (forall g, In g fs -> forall st, f (g st) = g (f st)) -> apply_all fs (f s) = f (apply_all fs s).
Proof.
  revert s; induction fs as [|g t IH]; intros s H; cbn [apply_all fold_left]; auto.
  change (fold_left _ t ?x) with (apply_all t x).
  rewrite <- (H g (or_introl eq_refl)). apply IH. intros g' Hg'. apply H. now right.
Qed.

Theorem commuting_updates fs gs s :
  Permutation fs gs -> pairwise_commute fs -> apply_all fs s = apply_all gs s.
Proof.
  intros P. revert s. induction P as [|f l l' P IH|f g l|l1 l2 l3 P1 IH1 P2 IH2]; intros s PC.
  - reflexivity.
  - rewrite !apply_all_cons. apply IH. intros a b Ha Hb. apply PC; now right.
  - rewrite !apply_all_cons. f_equal. symmetry. apply PC; [now left|right; now left].
  - rewrite IH1 by auto. apply IH2. intros a b Ha Hb.
    apply PC; (eapply Permutation_in; [apply Permutation_sym; exact P1|assumption]).
Qed.
End Commute.

(* ---------- Bloom bits: the final bits depend only on the set of probe positions ---------- *)
Lemma bits_test_set_other bits i j : j <> i -> bits_test bits j = false -> bits_test (bits_set bits i) j = false.
Proof.
  intros Hne Hf. unfold bits_test, bits_set in *.
  destruct (N.to_nat i <? length bits)%nat eqn:E.
  - unfold setnth. rewrite nth_upd_other by lia. exact Hf.
  - apply Nat.ltb_ge in E. destruct (Nat.lt_ge_cases (N.to_nat j) (length bits)).
    + now rewrite app_nth1.
    + rewrite app_nth2 by lia. destruct (Nat.lt_ge_cases (N.to_nat j - length bits) (N.to_nat i - length bits)).
      * rewrite app_nth1 by (rewrite repeat_length; lia). apply nth_repeat.
      * rewrite app_nth2 by (rewrite repeat_length; lia). rewrite repeat_length.
        destruct (N.to_nat j - length bits - (N.to_nat i - length bits))%nat eqn:E2; [lia|].
        cbn. now destruct n.
Qed.

Theorem bits_after_sets l bits j :
  bits_test (fold_left bits_set l bits) j = bits_test bits j || existsb (N.eqb j) l.
Proof.
  revert bits; induction l as [|i t IH]; intros bits; cbn [fold_left existsb]; [now rewrite orb_false_r|].
  rewrite IH. destruct (N.eqb_spec j i) as [->|Hne].
  - rewrite bits_test_set_same. cbn. now rewrite orb_true_r.
  - cbn [orb]. destruct (bits_test bits j) eqn:E.
    + now rewrite bits_test_set_mono.
    + now rewrite bits_test_set_other.
Qed.

(* any two orders (any interleaving) of the same SETBITs leave the same bits *)
Theorem bloom_bits_order_independent l l' bits :
  Permutation l l' -> forall j, bits_test (fold_left bits_set l bits) j = bits_test (fold_left bits_set l' bits) j.
Proof.
  intros P j. rewrite !bits_after_sets. f_equal.
  apply eq_true_iff_eq. rewrite !existsb_exists. split; intros (x & Hx & E); exists x; split; auto.
  - eapply Permutation_in; eauto.
  - eapply Permutation_in; [apply Permutation_sym; exact P|exact Hx].
Qed.

(* ---------- Count-Min: the matrix depends only on the multiset of updates ---------- *)
Section CMS.
Variable cpos : N -> N -> bytes -> list N.
Variable rows cols : N.
Hypothesis cpos_len : forall x, length (cpos rows cols x) = N.to_nat rows.
Hypothesis cpos_lt : forall x p, In p (cpos rows cols x) -> p < cols.

Lemma cell_sum_perm h h' r j : Permutation h h' -> cell_sum cpos rows cols h r j = cell_sum cpos rows cols h' r j.
Proof.
  unfold cell_sum. induction 1 as [|e l l' P IH|a b l|l1 l2 l3 P1 IH1 P2 IH2]; cbn [map sumN]; try lia.
Qed.
Lemma total_perm h h' : Permutation h h' -> total h = total h'.
Proof. unfold total. induction 1; cbn [map sumN]; lia. Qed.

Theorem cms_order_independent s0 h h' :
  cms_new rows cols = Ok s0 -> Permutation h h' -> total h < two64 ->
  c_matrix (run_hist cpos s0 h) = c_matrix (run_hist cpos s0 h').
Proof.
  intros Hn P Ht.
  assert (R0 : repr cpos rows cols s0 []) by (eapply new_repr; eauto).
  assert (R1 : repr cpos rows cols (run_hist cpos s0 h) h)
    by (apply (run_hist_repr cpos rows cols cpos_len cpos_lt s0 [] h); auto).
  assert (R2 : repr cpos rows cols (run_hist cpos s0 h') h').
  { apply (run_hist_repr cpos rows cols cpos_len cpos_lt s0 [] h'); auto. cbn [app]. now rewrite <- (total_perm h h' P). }
  eapply repr_matrix_eq; eauto. intros r j. now apply cell_sum_perm.
Qed.
End CMS.

(* ---------- HyperLogLog registers: already order- and duplicate-independent ---------- *)
Theorem hll_order_independent ivs ivs' regs :
  Forall (fun r => r < 256) regs -> Permutation ivs ivs' -> fold_left rupd ivs regs = fold_left rupd ivs' regs.
Proof.
  intros Hf P. apply fold_rupd_same_set; auto. intros iv. split; intros H.
  - eapply Permutation_in; eauto.
  - eapply Permutation_in; [apply Permutation_sym; exact P|exact H].
Qed.

(* ---------- cuckoo: two concurrent inserts, one slot — a lost insert ---------- *)
Definition ck_h : rcuckoo := mkRck 1 1 2 5 [107] [109].
Definition ck_s0 : store := snd (rck_new [] 1 1 2 5 [107] [109]).
Definition ck_x : bytes := [97].
Definition ck_y : bytes := [98].
(* A:isFree, B:isFree, A:add, B:add (refused), A:HINCRBY, B:HINCRBY *)
Definition ck_sched : list bool := [true; false; true; false; true; false].

Theorem cuckoo_concurrent_insert_lost :
  let '(s, ra, rb) := interleave ck_sched 20 (ck_insert_prog murmur64 ck_h ck_x) (ck_insert_prog murmur64 ck_h ck_y) ck_s0 in
  ra = Some 1 /\ rb = Some 1 /\                         (* both inserts reported success *)
  rck_length s ck_h = 2 /\                              (* Length says two *)
  length (r_list s (bucket_key [107] 0)) = 1%nat /\     (* one entry stored *)
  rck_lookup murmur64 s ck_h ck_y = Ok false.           (* the second element is not findable *)
Proof. vm_compute. repeat split; reflexivity. Qed.

(* the same two inserts one after the other: the second is refused room and enters eviction *)
Theorem cuckoo_sequential_inserts_ok :
  let '(s, ra, rb) := interleave [] 20 (ck_insert_prog murmur64 ck_h ck_x) (ck_insert_prog murmur64 ck_h ck_y) ck_s0 in
  ra = Some 1 /\ rb = Some 0 /\ rck_length s ck_h = 1.
Proof. vm_compute. repeat split; reflexivity. Qed.

(* ---------- Top-K: two concurrent inserts both evict — a heavier element is lost ---------- *)
Definition tk_cpos (rows cols : N) (x : bytes) : list N := [hd 0 x mod cols].
Definition tk_new := rtopk_new [] 2 1 64 0 0 [48] [48] [115] [109] [104] [116].
Definition tk_h : rtopk := match fst tk_new with Ok t => t | _ => mkRtopk 0 0 0 (mkRcms 0 0 0 [] []) [] [] end.
Definition tk_z : bytes := [122].
Definition tk_y : bytes := [121].
Definition tk_w : bytes := [119].
(* the heap already tracks z with count 3 *)
Definition tk_s0 : store := fst (fst (run_prog 30 (topk_insert_prog tk_cpos tk_h tk_z 3) (snd tk_new))).
(* A and B each run up to and including their ZADD, then both read ZCARD (3 > k), then both pop *)
Definition tk_sched : list bool :=
  [true; true; true; true; true; true; false; false; false; false; false; false; true; false; true; false].

Theorem topk_concurrent_inserts_lose_heavy_element :
  let '(s, ra, rb) := interleave tk_sched 30 (topk_insert_prog tk_cpos tk_h tk_y 10)
                                 (topk_insert_prog tk_cpos tk_h tk_w 20) tk_s0 in
  ra = Some 1 /\ rb = Some 1 /\ r_zset s (rt_heap tk_h) = [(tk_w, 20)].
Proof. vm_compute. repeat split; reflexivity. Qed.

Theorem topk_sequential_inserts_keep_both :
  let '(s, ra, rb) := interleave [] 30 (topk_insert_prog tk_cpos tk_h tk_y 10)
                                 (topk_insert_prog tk_cpos tk_h tk_w 20) tk_s0 in
  r_zset s (rt_heap tk_h) = [(tk_y, 10); (tk_w, 20)].
Proof. vm_compute. reflexivity. Qed.
