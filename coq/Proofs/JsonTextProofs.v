(* JsonTextProofs.v — no strict prefix of the text of a JSON object or array is a complete JSON
   text (C18, JSON clause). Scanning the printed text of a well-formed value from a clean state
   at nesting depth d never goes below d and ends in the clean state at depth d; between the
   opening and the closing bracket of an object or array the depth is at least d + 1. *)
From GX.Model Require Import Base JsonText.
From Coq Require Import Lia Bool.

Scheme jval_mut := Induction for jval Sort Prop
  with jlist_mut := Induction for jlist Sort Prop
  with jfields_mut := Induction for jfields Sort Prop.
Combined Scheme jmut from jval_mut, jlist_mut, jfields_mut.

Definition cs (d : nat) (u : bool) : jst := mkJst d false false u.

Lemma jscan_app st a b : jscan st (a ++ b) = jscan (jscan st a) b.
Proof. unfold jscan. apply fold_left_app. Qed.

(* scanning every prefix of x from the clean state at depth d stays at depth >= d, keeps the
   underflow flag, and the whole of x ends in the clean state at depth d *)
Definition mono (d : nat) (x : bytes) : Prop :=
  forall u p q, x = p ++ q ->
    (d <= j_depth (jscan (cs d u) p))%nat /\ j_under (jscan (cs d u) p) = u /\
    (q = [] -> jscan (cs d u) p = cs d u).

Lemma mono_nil d : mono d [].
Proof.
  intros u p q E. symmetry in E. apply app_eq_nil in E. destruct E as [-> ->]. cbn. auto.
Qed.

Lemma mono_app d a b : mono d a -> mono d b -> mono d (a ++ b).
Proof.
  intros Ha Hb u p q E. symmetry in E. apply app_eq_app in E. destruct E as (l & [[-> ->]|[-> ->]]).
  - (* p ++ l = a... here p = a ++ l *)
    destruct (Ha u a [] (eq_sym (app_nil_r a))) as (_ & _ & Hfull). specialize (Hfull eq_refl).
    rewrite jscan_app, Hfull. apply (Hb u l q eq_refl).
  - destruct (Ha u p l eq_refl) as (H1 & H2 & H3). split; [exact H1|]. split; [exact H2|].
    intros Hq. apply app_eq_nil in Hq. destruct Hq as [-> ->]. apply H3. reflexivity.
Qed.

Lemma mono_plain_char d c : plain c = true -> mono d [c].
Proof.
  intros Hc u p q E. unfold plain in Hc. apply negb_true_iff in Hc.
  repeat (apply orb_false_iff in Hc; destruct Hc as [Hc ?]).
  destruct p as [|b p].
  - cbn. split; [lia|]. split; [reflexivity|]. intros ->. discriminate.
  - injection E as <- E. symmetry in E. apply app_eq_nil in E. destruct E as [-> ->].
    cbn. unfold jstep. cbn [j_str cs]. rewrite Hc, H, H0, H1, H2. cbn. auto.
Qed.

Lemma atom_scan t : forallb plain t = true -> forall d u, jscan (cs d u) t = cs d u.
Proof.
  induction t as [|b t IH]; intros H d u; [reflexivity|]. cbn in H. apply andb_true_iff in H. destruct H as [Hb Ht].
  cbn [jscan fold_left]. fold (jscan (jstep (cs d u) b) t).
  assert (E : jstep (cs d u) b = cs d u).
  { unfold plain in Hb. apply negb_true_iff in Hb. repeat (apply orb_false_iff in Hb; destruct Hb as [Hb ?]).
    unfold jstep. cbn [j_str cs]. rewrite Hb, H, H0, H1, H2. reflexivity. }
  rewrite E. apply IH. exact Ht.
Qed.

Lemma forallb_app_l {A} (f : A -> bool) a b : forallb f (a ++ b) = true -> forallb f a = true.
Proof. rewrite forallb_app. intros H. apply andb_true_iff in H. tauto. Qed.

Lemma mono_atom d t : forallb plain t = true -> mono d t.
Proof.
  intros H u p q E. subst t. rewrite (atom_scan p (forallb_app_l _ _ _ H)). cbn. auto.
Qed.

(* inside a string nothing but the escape flag changes *)
Lemma str_scan t : forall e, str_ok e t = true -> forall d u p q, t = p ++ q ->
  exists e', jscan (mkJst d true e u) p = mkJst d true e' u /\ (q = [] -> e' = false).
Proof.
  induction t as [|b t IH]; intros e H d u p q E.
  - symmetry in E. apply app_eq_nil in E. destruct E as [-> ->]. cbn in *. exists e. split; [reflexivity|].
    intros _. destruct e; [discriminate|reflexivity].
  - destruct p as [|c p].
    + cbn. exists e. split; [reflexivity|]. intros ->. discriminate.
    + injection E as <- E. cbn [jscan fold_left]. fold (jscan (jstep (mkJst d true e u) b) p).
      cbn [str_ok] in H. unfold jstep. cbn [j_str j_esc j_depth j_under].
      destruct e.
      * apply (IH false H d u p q E).
      * destruct (b =? BSLASH); [apply (IH true H d u p q E)|].
        destruct (b =? QUOTE); [discriminate|]. apply (IH false H d u p q E).
Qed.

Lemma mono_string d t : str_ok false t = true -> mono d (QUOTE :: t ++ [QUOTE]).
Proof.
  intros H u p q E. destruct p as [|c p].
  - cbn. split; [lia|]. split; [reflexivity|]. intros ->. discriminate.
  - injection E as <- E. cbn [jscan fold_left]. fold (jscan (jstep (cs d u) QUOTE) p).
    assert (E0 : jstep (cs d u) QUOTE = mkJst d true false u) by reflexivity. rewrite E0.
    symmetry in E. apply app_eq_app in E. destruct E as (l & [[-> E2]|[-> E2]]).
    + (* p = t ++ l, [QUOTE] = l ++ q *)
      destruct (str_scan t false H d u t [] (eq_sym (app_nil_r t))) as (e' & Hs & He). rewrite (He eq_refl) in Hs.
      rewrite jscan_app, Hs. destruct l as [|x l].
      * cbn. split; [lia|]. split; [reflexivity|]. intros ->. discriminate.
      * injection E2 as <- E2. symmetry in E2. apply app_eq_nil in E2. destruct E2 as [-> ->].
        cbn. auto.
    + (* t = p ++ l, q = l ++ [QUOTE] *)
      destruct (str_scan (p ++ l) false H d u p l eq_refl) as (e' & Hs & _). rewrite Hs. cbn.
      split; [lia|]. split; [reflexivity|]. intros Hq. subst q. destruct l; discriminate.
Qed.

(* an opening bracket, a body that is mono one level deeper, the closing bracket *)
Lemma container_scan d op cl body :
  ((op =? LBRACE) || (op =? LBRACK) = true) -> ((cl =? RBRACE) || (cl =? RBRACK) = true) ->
  mono (S d) body ->
  mono d (op :: body ++ [cl]) /\
  (forall u p q, op :: body ++ [cl] = p ++ q -> p <> [] -> q <> [] -> (S d <= j_depth (jscan (cs d u) p))%nat).
Proof.
  intros Hop Hcl Hb.
  assert (Eop : forall u, jstep (cs d u) op = cs (S d) u).
  { intros u. unfold jstep. cbn [j_str cs].
    assert (op =? QUOTE = false) as ->
      by (apply orb_true_iff in Hop; destruct Hop as [Hx|Hx]; apply N.eqb_eq in Hx; subst op; reflexivity).
    rewrite Hop. reflexivity. }
  assert (Ecl : forall u, jstep (cs (S d) u) cl = cs d u).
  { intros u. unfold jstep. cbn [j_str cs j_depth j_under].
    assert (cl =? QUOTE = false) as ->
      by (apply orb_true_iff in Hcl; destruct Hcl as [Hx|Hx]; apply N.eqb_eq in Hx; subst cl; reflexivity).
    assert ((cl =? LBRACE) || (cl =? LBRACK) = false) as ->
      by (apply orb_true_iff in Hcl; destruct Hcl as [Hx|Hx]; apply N.eqb_eq in Hx; subst cl; reflexivity).
    rewrite Hcl. reflexivity. }
  assert (Key : forall u p q, op :: body ++ [cl] = p ++ q -> p <> [] ->
            (q <> [] -> (S d <= j_depth (jscan (cs d u) p))%nat /\ j_under (jscan (cs d u) p) = u) /\
            (q = [] -> jscan (cs d u) p = cs d u)).
  { intros u p q E Hp. destruct p as [|c p]; [congruence|]. injection E as <- E.
    cbn [jscan fold_left]. fold (jscan (jstep (cs d u) op) p). rewrite Eop.
    symmetry in E. apply app_eq_app in E. destruct E as (l & [[-> E2]|[-> E2]]).
    - destruct (Hb u body [] (eq_sym (app_nil_r body))) as (_ & _ & Hfull). specialize (Hfull eq_refl).
      rewrite jscan_app, Hfull. destruct l as [|x l].
      + cbn. split; [intros _; split; [lia|reflexivity]|]. intros ->. discriminate.
      + injection E2 as <- E2. symmetry in E2. apply app_eq_nil in E2. destruct E2 as [-> ->].
        cbn [jscan fold_left]. rewrite Ecl. split; [congruence|reflexivity].
    - destruct (Hb u p l eq_refl) as (H1 & H2 & _). split; [intros _; split; assumption|].
      intros Hq. subst q. destruct l; discriminate. }
  split.
  - intros u p q E. destruct p as [|c p].
    + cbn. split; [lia|]. split; [reflexivity|]. intros ->. discriminate.
    + destruct (Key u (c :: p) q E ltac:(discriminate)) as [K1 K2].
      destruct q as [|y q].
      * rewrite (K2 eq_refl). cbn. auto.
      * destruct (K1 ltac:(discriminate)) as [A B]. split; [lia|]. split; [exact B|]. discriminate.
  - intros u p q E Hp Hq. exact (proj1 (proj1 (Key u p q E Hp) Hq)).
Qed.

Lemma plain_comma : plain COMMA = true. Proof. reflexivity. Qed.
Lemma plain_colon : plain COLON = true. Proof. reflexivity. Qed.

(* a key followed by its colon *)
Lemma mono_field_head d k : str_ok false k = true -> mono d (QUOTE :: k ++ QUOTE :: [COLON]).
Proof.
  intros H. replace (QUOTE :: k ++ QUOTE :: [COLON]) with ((QUOTE :: k ++ [QUOTE]) ++ [COLON])
    by (cbn [app]; f_equal; rewrite <- app_assoc; reflexivity).
  apply mono_app; [apply mono_string; exact H|apply mono_plain_char; exact plain_colon].
Qed.

Lemma field_assoc (k x : bytes) : QUOTE :: k ++ QUOTE :: COLON :: x = (QUOTE :: k ++ QUOTE :: [COLON]) ++ x.
Proof. cbn [app]. f_equal. rewrite <- app_assoc. reflexivity. Qed.

Theorem print_mono :
  (forall v, jwf v = true -> forall d, mono d (jprint v)) /\
  (forall l, jwf_items l = true -> forall d, mono d (jprint_items l)) /\
  (forall l, jwf_fields l = true -> forall d, mono d (jprint_fields l)).
Proof.
  apply jmut.
  - intros t H d. cbn in *. unfold atom_ok in H. destruct t; [discriminate|]. apply mono_atom. exact H.
  - intros t H d. cbn in *. apply mono_string. exact H.
  - intros l IH H d. cbn [jprint jwf] in *.
    exact (proj1 (container_scan d LBRACK RBRACK (jprint_items l) eq_refl eq_refl (IH H (S d)))).
  - intros l IH H d. cbn [jprint jwf] in *.
    exact (proj1 (container_scan d LBRACE RBRACE (jprint_fields l) eq_refl eq_refl (IH H (S d)))).
  - intros _ d. apply mono_nil.
  - intros v IHv r IHr H d. cbn [jwf_items] in H. apply andb_true_iff in H. destruct H as [Hv Hr].
    cbn [jprint_items]. destruct r as [|v2 r2].
    + apply IHv; exact Hv.
    + change (jprint v ++ COMMA :: jprint_items (JCons v2 r2)) with (jprint v ++ [COMMA] ++ jprint_items (JCons v2 r2)).
      apply mono_app; [apply IHv; exact Hv|]. apply mono_app; [apply mono_plain_char; exact plain_comma|apply IHr; exact Hr].
  - intros _ d. apply mono_nil.
  - intros k v IHv r IHr H d. cbn [jwf_fields] in H. apply andb_true_iff in H. destruct H as [H Hr].
    apply andb_true_iff in H. destruct H as [Hk Hv].
    cbn [jprint_fields]. destruct r as [|k2 v2 r2].
    + rewrite field_assoc.
      apply mono_app; [apply mono_field_head; exact Hk|apply IHv; exact Hv].
    + rewrite field_assoc.
      change (jprint v ++ COMMA :: jprint_fields (FCons k2 v2 r2)) with (jprint v ++ [COMMA] ++ jprint_fields (FCons k2 v2 r2)).
      apply mono_app; [apply mono_field_head; exact Hk|]. apply mono_app; [apply IHv; exact Hv|].
      apply mono_app; [apply mono_plain_char; exact plain_comma|apply IHr; exact Hr].
Qed.

Definition is_container (v : jval) : bool := match v with JArr _ | JObj _ => true | _ => false end.

(* between its brackets an object or array is at depth >= 1 *)
Theorem container_prefix_depth v : jwf v = true -> is_container v = true ->
  forall p q, jprint v = p ++ q -> p <> [] -> q <> [] -> (1 <= j_depth (jscan jinit p))%nat.
Proof.
  intros Hw Hc p q E Hp Hq. destruct v as [t|t|l|l]; try discriminate; cbn [jprint jwf] in *.
  - exact (proj2 (container_scan 0 LBRACK RBRACK (jprint_items l) eq_refl eq_refl
                    (proj1 (proj2 print_mono) l Hw 1%nat)) false p q E Hp Hq).
  - exact (proj2 (container_scan 0 LBRACE RBRACE (jprint_fields l) eq_refl eq_refl
                    (proj2 (proj2 print_mono) l Hw 1%nat)) false p q E Hp Hq).
Qed.

(* THE THEOREM: no strict prefix of the text of a well-formed object or array is complete;
   the whole text is *)
Theorem strict_prefix_not_complete v k : jwf v = true -> is_container v = true ->
  (k < length (jprint v))%nat -> jcomplete (firstn k (jprint v)) = false.
Proof.
  intros Hw Hc Hk. destruct k as [|k]; [reflexivity|].
  set (p := firstn (S k) (jprint v)). set (q := skipn (S k) (jprint v)).
  assert (E : jprint v = p ++ q) by (symmetry; apply firstn_skipn).
  assert (Hp : p <> []).
  { unfold p. destruct (jprint v); [cbn in Hk; lia|discriminate]. }
  assert (Hq : q <> []).
  { intros Hq0. apply (f_equal (@length _)) in E. rewrite app_length, Hq0 in E. unfold p in E.
    rewrite firstn_length in E. cbn [length] in E. lia. }
  pose proof (container_prefix_depth v Hw Hc p q E Hp Hq) as Hd.
  unfold jcomplete. destruct p as [|b p']; [congruence|].
  unfold jclosed. destruct (j_depth (jscan jinit (b :: p'))); [lia|reflexivity].
Qed.

Theorem whole_text_complete v : jwf v = true -> is_container v = true -> jcomplete (jprint v) = true.
Proof.
  intros Hw Hc. destruct (proj1 print_mono v Hw 0%nat false (jprint v) [] (eq_sym (app_nil_r _))) as (_ & _ & Hfull).
  unfold jcomplete. destruct (jprint v) eqn:E.
  - destruct v; try discriminate; cbn in E; discriminate.
  - unfold jinit. fold (cs 0 false). rewrite (Hfull eq_refl). reflexivity.
Qed.
