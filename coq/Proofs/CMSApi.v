(* API-level corollaries for the in-memory Count-Min sketch, instantiated with the position
   formula of the code (any metro hash). *)
From GX.Model Require Import Base CMS.
From GX.Proofs Require Import ListLemmas CMSProofs.
From Coq Require Import Lia ZifyN ZifyNat ZifyBool.

Section Api.
Variable cpos : N -> N -> bytes -> list N.
Variable rows cols : N.
Hypothesis cpos_len : forall x, length (cpos rows cols x) = N.to_nat rows.
Hypothesis cpos_lt : forall x p, In p (cpos rows cols x) -> p < cols.

Let reprH := repr cpos rows cols.

Lemma api_run s0 h : cms_new rows cols = Ok s0 -> total h < two64 ->
  repr cpos rows cols (run_hist cpos s0 h) h /\ 0 < rows.
Proof.
  intros Hn Ht. split; [|exact (proj1 (new_dims _ _ _ Hn))].
  apply (run_hist_repr cpos rows cols cpos_len cpos_lt s0 [] h); auto.
  eapply new_repr; eauto.
Qed.

Theorem api_bounds s0 h x : cms_new rows cols = Ok s0 -> total h < two64 ->
  true_count h x <= cms_count cpos (run_hist cpos s0 h) x /\
  cms_count cpos (run_hist cpos s0 h) x <= total h.
Proof.
  intros Hn Ht. destruct (api_run s0 h Hn Ht) as (Hr & Hp). split.
  - eapply count_lower; eauto.
  - eapply count_upper; eauto.
Qed.

Theorem api_exact_single s0 h x : cms_new rows cols = Ok s0 -> total h < two64 ->
  only_elem h x -> cms_count cpos (run_hist cpos s0 h) x = true_count h x.
Proof.
  intros Hn Ht Ho. destruct (api_run s0 h Hn Ht) as (Hr & Hp).
  eapply count_exact_single; eauto.
Qed.

Theorem api_empty s0 x : cms_new rows cols = Ok s0 -> cms_count cpos s0 x = 0.
Proof.
  intros Hn. assert (Ht : total [] < two64) by (unfold total, two64; simpl; lia).
  pose proof (api_bounds s0 [] x Hn Ht) as (_ & H). unfold total in H; simpl in H.
  unfold run_hist in H; simpl in H. lia.
Qed.

(* merge = sketch of the combined stream *)
Theorem api_merge sa sb ha hb :
  cms_new rows cols = Ok sa -> cms_new rows cols = Ok sb -> total (ha ++ hb) < two64 ->
  exists m, cms_merge (run_hist cpos sa ha) (run_hist cpos sb hb) = Ok m /\
            c_matrix m = c_matrix (run_hist cpos sa (ha ++ hb)) /\
            forall x, cms_count cpos m x = cms_count cpos (run_hist cpos sa (ha ++ hb)) x.
Proof.
  intros Ha Hb Ht.
  assert (Hta : total ha < two64) by (rewrite total_app in Ht; lia).
  assert (Htb : total hb < two64) by (rewrite total_app in Ht; lia).
  destruct (api_run sa ha Ha Hta) as (Hra & _). destruct (api_run sb hb Hb Htb) as (Hrb & _).
  destruct (api_run sa (ha ++ hb) Ha Ht) as (Hrab & _).
  destruct (merge_ok _ _ _ _ (proj1 Hra) (proj1 Hrb)) as (m & Hm).
  exists m. split; [exact Hm|].
  pose proof (merge_repr cpos rows cols cpos_len cpos_lt _ _ _ _ m Hra Hrb Ht Hm) as Hrm.
  assert (Heq : c_matrix m = c_matrix (run_hist cpos sa (ha ++ hb))).
  { eapply repr_matrix_eq; eauto. }
  split; [exact Heq|]. intros x.
  eapply count_matrix_eq; [exact (proj1 Hrm)|exact (proj1 Hrab)|exact Heq].
Qed.

(* merge order does not matter: A<-B and B<-A give equal matrices *)
Theorem api_merge_comm sa sb ha hb ma mb :
  cms_new rows cols = Ok sa -> cms_new rows cols = Ok sb -> total (ha ++ hb) < two64 ->
  cms_merge (run_hist cpos sa ha) (run_hist cpos sb hb) = Ok ma ->
  cms_merge (run_hist cpos sb hb) (run_hist cpos sa ha) = Ok mb ->
  c_matrix ma = c_matrix mb.
Proof.
  intros Ha Hb Ht Hma Hmb.
  assert (Hta : total ha < two64) by (rewrite total_app in Ht; lia).
  assert (Htb : total hb < two64) by (rewrite total_app in Ht; lia).
  assert (Ht' : total (hb ++ ha) < two64) by (rewrite total_app in *; lia).
  destruct (api_run sa ha Ha Hta) as (Hra & _). destruct (api_run sb hb Hb Htb) as (Hrb & _).
  pose proof (merge_repr cpos rows cols cpos_len cpos_lt _ _ _ _ ma Hra Hrb Ht Hma) as H1.
  pose proof (merge_repr cpos rows cols cpos_len cpos_lt _ _ _ _ mb Hrb Hra Ht' Hmb) as H2.
  eapply repr_matrix_eq; eauto.
  intros r j. rewrite !cell_sum_app. lia.
Qed.

(* three sketches: ((A<-B)<-C) and ((A<-C)<-B) agree *)
Theorem api_merge3 sa sb sc ha hb hc m1 m2 m3 m4 :
  cms_new rows cols = Ok sa -> cms_new rows cols = Ok sb -> cms_new rows cols = Ok sc ->
  total (ha ++ hb ++ hc) < two64 ->
  cms_merge (run_hist cpos sa ha) (run_hist cpos sb hb) = Ok m1 ->
  cms_merge m1 (run_hist cpos sc hc) = Ok m2 ->
  cms_merge (run_hist cpos sa ha) (run_hist cpos sc hc) = Ok m3 ->
  cms_merge m3 (run_hist cpos sb hb) = Ok m4 ->
  c_matrix m2 = c_matrix m4.
Proof.
  intros Ha Hb Hc Ht H1 H2 H3 H4. rewrite !total_app in Ht.
  assert (Hta : total ha < two64) by lia.
  assert (Htb : total hb < two64) by lia.
  assert (Htc : total hc < two64) by lia.
  destruct (api_run sa ha Ha Hta) as (Hra & _). destruct (api_run sb hb Hb Htb) as (Hrb & _).
  destruct (api_run sc hc Hc Htc) as (Hrc & _).
  assert (R1 : repr cpos rows cols m1 (ha ++ hb))
    by (eapply merge_repr; eauto; rewrite total_app; lia).
  assert (R2 : repr cpos rows cols m2 ((ha ++ hb) ++ hc))
    by (eapply merge_repr; eauto; rewrite !total_app; lia).
  assert (R3 : repr cpos rows cols m3 (ha ++ hc))
    by (eapply merge_repr; eauto; rewrite total_app; lia).
  assert (R4 : repr cpos rows cols m4 ((ha ++ hc) ++ hb))
    by (eapply merge_repr; eauto; rewrite !total_app; lia).
  eapply repr_matrix_eq; eauto. intros r j. rewrite !cell_sum_app. lia.
Qed.

(* further updates after a merge behave as on the single sketch *)
Theorem api_merge_then_update sa sb ha hb hc m x :
  cms_new rows cols = Ok sa -> cms_new rows cols = Ok sb -> total (ha ++ hb ++ hc) < two64 ->
  cms_merge (run_hist cpos sa ha) (run_hist cpos sb hb) = Ok m ->
  cms_count cpos (run_hist cpos m hc) x = cms_count cpos (run_hist cpos sa (ha ++ hb ++ hc)) x.
Proof.
  intros Ha Hb Ht Hm. pose proof Ht as Ht0. rewrite !total_app in Ht.
  assert (Hta : total ha < two64) by lia.
  assert (Htb : total hb < two64) by lia.
  destruct (api_run sa ha Ha Hta) as (Hra & _). destruct (api_run sb hb Hb Htb) as (Hrb & _).
  assert (R1 : repr cpos rows cols m (ha ++ hb))
    by (eapply merge_repr; eauto; rewrite total_app; lia).
  assert (R2 : repr cpos rows cols (run_hist cpos m hc) ((ha ++ hb) ++ hc))
    by (apply run_hist_repr; auto; rewrite !total_app; lia).
  destruct (api_run sa (ha ++ hb ++ hc) Ha Ht0) as (R3 & _).
  eapply count_matrix_eq; [exact (proj1 R2)|exact (proj1 R3)|].
  eapply repr_matrix_eq; eauto. intros r j. now rewrite <- app_assoc.
Qed.

End Api.

(* the argument of a merge is a value: cms_merge returns a new A and cannot change B *)
