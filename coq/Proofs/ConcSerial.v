(* ConcSerial.v — serialisability of method bodies run under one mutex (C07, layer 1):
   along every execution of the thread/mutex model, whenever the lock is free the shared state is
   the result of running the bodies acquired so far ONE AFTER ANOTHER, in lock-acquisition order,
   each exactly once and whole; per thread, the acquired bodies are a prefix of its program in
   program order. Hence no update is lost or applied twice, and the outcome equals a sequential
   ordering of the calls. *)
From Coq Require Import List Arith Lia Bool.
From GX.Model Require Import Conc.
From GX.Proofs Require Import ConcProofs.
Import ListNotations.

Section Ser.
Variable S : Type.
Notation body := (list (mstep S)).

Definition apply_body (b : body) (s : S) : S := fold_left (fun s m => m s) b s.
Definition apply_log (log : list (nat * body)) (s : S) : S :=
  fold_left (fun s e => apply_body (snd e) s) log s.

(* the body whose lock acquisition this step is, if it is one *)
Definition acquired (i : nat) (c c' : config S) : list (nat * body) :=
  match nth_error (c_threads S c) i, nth_error (c_threads S c') i with
  | Some t, Some t' =>
      match t_pc S t, t_pc S t' with
      | Waiting _ b, Running _ _ => [(i, b)]
      | _, _ => []
      end
  | _, _ => []
  end.

Inductive reach (c0 : config S) : list (nat * body) -> config S -> Prop :=
| reach_init : reach c0 [] c0
| reach_step log c i c' : reach c0 log c -> step S i c c' -> reach c0 (log ++ acquired i c c') c'.

Definition calls_of (j : nat) (log : list (nat * body)) : list body :=
  map snd (filter (fun e => fst e =? j) log).
Definition pending (t : thread S) : list body :=
  match t_pc S t with Waiting _ b => [b] | _ => [] end.

Definition initial (c0 : config S) : Prop :=
  c_holder S c0 = None /\ forall j t, nth_error (c_threads S c0) j = Some t -> t_pc S t = Idle S.

Lemma apply_log_app l1 l2 s : apply_log (l1 ++ l2) s = apply_log l2 (apply_log l1 s).
Proof. unfold apply_log. apply fold_left_app. Qed.
Lemma apply_body_app b1 b2 s : apply_body (b1 ++ b2) s = apply_body b2 (apply_body b1 s).
Proof. unfold apply_body. apply fold_left_app. Qed.
Lemma calls_of_app j l1 l2 : calls_of j (l1 ++ l2) = calls_of j l1 ++ calls_of j l2.
Proof. unfold calls_of. rewrite filter_app, map_app. reflexivity. Qed.

(* the invariant carried along an execution *)
Definition ser_inv (c0 : config S) (log : list (nat * body)) (c : config S) : Prop :=
  mutex_inv S c /\
  (c_holder S c = None -> c_shared S c = apply_log log (c_shared S c0)) /\
  (forall j t rest, c_holder S c = Some j -> nth_error (c_threads S c) j = Some t ->
     t_pc S t = Running S rest ->
     exists pre b log', log = log' ++ [(j, b)] /\ pre ++ rest = b /\
       c_shared S c = apply_body pre (apply_log log' (c_shared S c0))) /\
  (forall j t, nth_error (c_threads S c) j = Some t ->
     exists t0, nth_error (c_threads S c0) j = Some t0 /\
       calls_of j log ++ pending t ++ t_calls S t = t_calls S t0).

Lemma ser_init c0 : initial c0 -> mutex_inv S c0 -> ser_inv c0 [] c0.
Proof.
  intros (Hh & Hidle) Hm. split; [exact Hm|]. split; [reflexivity|]. split.
  - intros j t rest Hj. congruence.
  - intros j t Hn. exists t. split; [exact Hn|]. unfold pending. rewrite (Hidle j t Hn). reflexivity.
Qed.

Lemma acquired_spec i c c' : step S i c c' ->
  (exists t b, nth_error (c_threads S c) i = Some t /\ t_pc S t = Waiting S b /\ c_holder S c = None /\
               c_holder S c' = Some i /\ acquired i c c' = [(i, b)]) \/
  (acquired i c c' = [] /\ (c_holder S c' = Some i -> c_holder S c = Some i)).
Proof.
  intros St. destruct St as [c t bd rest Hn Hpc Hc | c t bd Hn Hpc Hh | c t m rest Hn Hpc | c t Hn Hpc];
    unfold acquired; cbn [c_threads c_holder]; rewrite Hn, (nth_error_set_same S _ _ _ _ Hn); cbn [t_pc]; rewrite Hpc.
  - right. split; [reflexivity|auto].
  - left. exists t, bd. auto.
  - right. split; [reflexivity|auto].
  - right. split; [reflexivity|discriminate].
Qed.

Theorem ser_step c0 log c i c' : ser_inv c0 log c -> step S i c c' -> ser_inv c0 (log ++ acquired i c c') c'.
Proof.
  intros (Hm & Hfree & Hrun & Hacc) St.
  pose proof (step_preserves_mutex S i c c' Hm St) as Hm'.
  split; [exact Hm'|].
  destruct St as [c t bd rest Hn Hpc Hc | c t bd Hn Hpc Hh | c t m rest Hn Hpc | c t Hn Hpc].
  - (* call: Idle -> Waiting *)
    assert (Hl : i < length (c_threads S c)) by (apply nth_error_Some; congruence).
    assert (Ha : acquired i c (mkConfig S (c_shared S c) (c_holder S c)
                 (set_thread S (c_threads S c) i (mkThread S rest (Waiting S bd)))) = []).
    { unfold acquired. cbn [c_threads]. rewrite Hn, (nth_error_set_same S _ _ _ _ Hn). cbn [t_pc]. rewrite Hpc. reflexivity. }
    rewrite Ha, app_nil_r. cbn [c_shared c_holder c_threads]. split; [exact Hfree|]. split.
    + intros j tj rj Hj Hnj Hpj. destruct (Nat.eq_dec j i) as [->|Hne].
      * rewrite (nth_error_set_same S _ _ _ _ Hn) in Hnj. injection Hnj as <-. cbn [t_pc] in Hpj. discriminate.
      * rewrite nth_error_set_other in Hnj by auto. eapply Hrun; eauto.
    + intros j tj Hnj. destruct (Nat.eq_dec j i) as [->|Hne].
      * rewrite (nth_error_set_same S _ _ _ _ Hn) in Hnj. injection Hnj as <-.
        destruct (Hacc i t Hn) as (t0 & H0 & Heq). exists t0. split; [exact H0|].
        unfold pending in *. cbn [t_pc t_calls]. rewrite Hpc, Hc in Heq. exact Heq.
      * rewrite nth_error_set_other in Hnj by auto. apply Hacc. exact Hnj.
  - (* acquire *)
    assert (Hl : i < length (c_threads S c)) by (apply nth_error_Some; congruence).
    assert (Ha : acquired i c (mkConfig S (c_shared S c) (Some i)
                 (set_thread S (c_threads S c) i (mkThread S (t_calls S t) (Running S bd)))) = [(i, bd)]).
    { unfold acquired. cbn [c_threads]. rewrite Hn, (nth_error_set_same S _ _ _ _ Hn). cbn [t_pc]. rewrite Hpc. reflexivity. }
    rewrite Ha. cbn [c_shared c_holder c_threads]. split; [discriminate|]. split.
    + intros j tj rj Hj Hnj Hpj. injection Hj as <-.
      rewrite (nth_error_set_same S _ _ _ _ Hn) in Hnj. injection Hnj as <-. cbn [t_pc] in Hpj. injection Hpj as <-.
      exists [], bd, log. split; [reflexivity|]. split; [reflexivity|]. cbn. apply Hfree. exact Hh.
    + intros j tj Hnj. rewrite calls_of_app. destruct (Nat.eq_dec j i) as [->|Hne].
      * rewrite (nth_error_set_same S _ _ _ _ Hn) in Hnj. injection Hnj as <-.
        destruct (Hacc i t Hn) as (t0 & H0 & Heq). exists t0. split; [exact H0|].
        unfold pending in *. cbn [t_pc t_calls]. rewrite Hpc in Heq.
        unfold calls_of at 2. cbn [filter fst]. rewrite Nat.eqb_refl. cbn [map snd].
        rewrite <- app_assoc. exact Heq.
      * rewrite nth_error_set_other in Hnj by auto.
        destruct (Hacc j tj Hnj) as (t0 & H0 & Heq). exists t0. split; [exact H0|].
        unfold calls_of at 2. cbn [filter fst].
        replace (i =? j) with false by (symmetry; apply Nat.eqb_neq; auto). cbn [map]. rewrite app_nil_r. exact Heq.
  - (* micro-step of the holder *)
    assert (Hl : i < length (c_threads S c)) by (apply nth_error_Some; congruence).
    assert (Hold : c_holder S c = Some i) by (apply (Hm i t Hn); unfold is_running; rewrite Hpc; reflexivity).
    assert (Ha : acquired i c (mkConfig S (m (c_shared S c)) (c_holder S c)
                 (set_thread S (c_threads S c) i (mkThread S (t_calls S t) (Running S rest)))) = []).
    { unfold acquired. cbn [c_threads]. rewrite Hn, (nth_error_set_same S _ _ _ _ Hn). cbn [t_pc]. rewrite Hpc. reflexivity. }
    rewrite Ha, app_nil_r. cbn [c_shared c_holder c_threads]. split; [intros E; congruence|]. split.
    + intros j tj rj Hj Hnj Hpj. rewrite Hold in Hj. injection Hj as <-.
      rewrite (nth_error_set_same S _ _ _ _ Hn) in Hnj. injection Hnj as <-. cbn [t_pc] in Hpj. injection Hpj as <-.
      destruct (Hrun i t (m :: rest) Hold Hn Hpc) as (pre & b & log' & -> & Hb & Hs).
      exists (pre ++ [m]), b, log'. split; [reflexivity|]. split; [rewrite <- app_assoc; exact Hb|].
      rewrite apply_body_app, <- Hs. reflexivity.
    + intros j tj Hnj. destruct (Nat.eq_dec j i) as [->|Hne].
      * rewrite (nth_error_set_same S _ _ _ _ Hn) in Hnj. injection Hnj as <-.
        destruct (Hacc i t Hn) as (t0 & H0 & Heq). exists t0. split; [exact H0|].
        unfold pending in *. cbn [t_pc t_calls]. rewrite Hpc in Heq. exact Heq.
      * rewrite nth_error_set_other in Hnj by auto. apply Hacc. exact Hnj.
  - (* release *)
    assert (Hl : i < length (c_threads S c)) by (apply nth_error_Some; congruence).
    assert (Hold : c_holder S c = Some i) by (apply (Hm i t Hn); unfold is_running; rewrite Hpc; reflexivity).
    assert (Ha : acquired i c (mkConfig S (c_shared S c) None
                 (set_thread S (c_threads S c) i (mkThread S (t_calls S t) (Idle S)))) = []).
    { unfold acquired. cbn [c_threads]. rewrite Hn, (nth_error_set_same S _ _ _ _ Hn). cbn [t_pc]. rewrite Hpc. reflexivity. }
    rewrite Ha, app_nil_r. cbn [c_shared c_holder c_threads]. split.
    + intros _. destruct (Hrun i t [] Hold Hn Hpc) as (pre & b & log' & -> & Hb & Hs).
      rewrite app_nil_r in Hb. subst pre. rewrite apply_log_app. cbn. exact Hs.
    + split; [intros j tj rj Hj; discriminate|].
      intros j tj Hnj. destruct (Nat.eq_dec j i) as [->|Hne].
      * rewrite (nth_error_set_same S _ _ _ _ Hn) in Hnj. injection Hnj as <-.
        destruct (Hacc i t Hn) as (t0 & H0 & Heq). exists t0. split; [exact H0|].
        unfold pending in *. cbn [t_pc t_calls]. rewrite Hpc in Heq. exact Heq.
      * rewrite nth_error_set_other in Hnj by auto. apply Hacc. exact Hnj.
Qed.

Theorem reach_inv c0 log c : initial c0 -> mutex_inv S c0 -> reach c0 log c -> ser_inv c0 log c.
Proof. intros Hi Hm R. induction R; [apply ser_init; assumption|eapply ser_step; eauto]. Qed.

(* whenever the lock is free, the shared state is the sequential execution of the acquired
   bodies in acquisition order; each thread's acquired bodies, followed by what it still has to
   do, are its program *)
Theorem serialisable c0 log c :
  initial c0 -> mutex_inv S c0 -> reach c0 log c -> c_holder S c = None ->
  c_shared S c = apply_log log (c_shared S c0) /\
  forall j t, nth_error (c_threads S c) j = Some t ->
    exists t0, nth_error (c_threads S c0) j = Some t0 /\
      calls_of j log ++ pending t ++ t_calls S t = t_calls S t0.
Proof.
  intros Hi Hm R Hh. destruct (reach_inv c0 log c Hi Hm R) as (_ & Hfree & _ & Hacc).
  split; [apply Hfree; exact Hh|exact Hacc].
Qed.

(* complete executions: every call of every thread ran exactly once, whole, in an order that
   respects each thread's program order, and the final state is that sequential execution *)
Corollary complete_execution c0 log c :
  initial c0 -> mutex_inv S c0 -> reach c0 log c -> c_holder S c = None ->
  (forall j t, nth_error (c_threads S c) j = Some t -> t_pc S t = Idle S /\ t_calls S t = []) ->
  c_shared S c = apply_log log (c_shared S c0) /\
  forall j t, nth_error (c_threads S c) j = Some t ->
    exists t0, nth_error (c_threads S c0) j = Some t0 /\ calls_of j log = t_calls S t0.
Proof.
  intros Hi Hm R Hh Hdone. destruct (serialisable c0 log c Hi Hm R Hh) as (Hs & Hacc).
  split; [exact Hs|]. intros j t Hn. destruct (Hacc j t Hn) as (t0 & H0 & Heq).
  destruct (Hdone j t Hn) as (Hp & Hc). exists t0. split; [exact H0|].
  unfold pending in Heq. rewrite Hp, Hc in Heq. cbn in Heq. rewrite app_nil_r in Heq. exact Heq.
Qed.
End Ser.
