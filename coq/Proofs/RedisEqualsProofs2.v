(* RedisEqualsProofs2.v — C17 for the Redis-backed Bloom filter and Top-K: Equals true implies
   equal parameters and an equal payload, hence equal answers. *)
From GX.Model Require Import Base Redis RedisCMS RedisBloom Heap TopK RedisTopK.
From GX.Proofs Require Import ListLemmas RedisProofs.
From Coq Require Import ZArith Lia ZifyN ZifyNat ZifyBool.
Open Scope N_scope.

(* ---------- Bloom ---------- *)
Theorem rbloom_equals_sound s a b : rbloom_equals s a b = Ok true ->
  rb_size a = rb_size b /\ rb_k a = rb_k b /\
  exists v, r_get s (rb_key a) = Some v /\ r_get s (rb_key b) = Some v.
Proof.
  unfold rbloom_equals. destruct (negb (rb_size a =? rb_size b) || negb (rb_k a =? rb_k b)) eqn:Ep; [discriminate|].
  destruct (rb_nil a || rb_nil b); [discriminate|].
  destruct (r_get s (rb_key a)) as [x|]; [|discriminate]. destruct (r_get s (rb_key b)) as [y|]; [|discriminate].
  intros [= E]. apply bytes_eqb_eq in E. subst y. split; [lia|]. split; [lia|]. exists x. auto.
Qed.

Theorem rbloom_equals_same_answers bpos s a b x : rbloom_equals s a b = Ok true ->
  rbloom_lookup bpos s a x = rbloom_lookup bpos s b x.
Proof.
  intros H. pose proof (rbloom_equals_sound s a b H) as (Hs & Hk & v & Ha & Hb).
  unfold rbloom_equals in H. destruct (_ || _); [discriminate|]. destruct (rb_nil a) eqn:Na; [discriminate|].
  destruct (rb_nil b) eqn:Nb; [discriminate|].
  unfold rbloom_lookup. rewrite Hs, Hk, Na, Nb. destruct (bpos (rb_size b) (rb_k b) x); [reflexivity|].
  f_equal. unfold r_getbit. rewrite Ha, Hb. reflexivity.
Qed.

Theorem rbloom_equals_refl s a v : rb_nil a = false -> r_get s (rb_key a) = Some v -> rbloom_equals s a a = Ok true.
Proof.
  intros Hn Hv. unfold rbloom_equals. rewrite !N.eqb_refl, Hn, Hv. cbn [negb orb]. rewrite bytes_eqb_refl. reflexivity.
Qed.

(* ---------- Top-K: the heaps ---------- *)
Lemma zcmp_sound n : forall a b, (length a <= n)%nat -> (length b <= n)%nat -> zcmp n a b = true -> a = b.
Proof.
  induction n as [|n IH]; intros a b Ha Hb H.
  - destruct a; [|cbn in Ha; lia]. destruct b; [reflexivity|cbn in Hb; lia].
  - destruct a as [|[xa sa] a], b as [|[xb sb] b]; cbn [zcmp] in H; try discriminate; [reflexivity|].
    cbn [fst snd] in H. apply andb_prop in H. destruct H as [H Hr]. apply andb_prop in H. destruct H as [Hx Hs].
    apply bytes_eqb_eq in Hx. apply N.eqb_eq in Hs. subst. f_equal. apply IH; cbn [length] in *; [lia|lia|exact Hr].
Qed.

Lemma zcmp_refl n : forall a, zcmp n a a = true.
Proof.
  induction n as [|n IH]; intros a; [reflexivity|]. destruct a as [|[x sc] a]; [reflexivity|].
  cbn [zcmp fst snd]. rewrite bytes_eqb_refl, N.eqb_refl, IH. reflexivity.
Qed.

(* Equals true: same parameters, the sketches pass their comparison, and — for sorted sets that
   respect the size bound k, as every reachable one does — identical sorted sets, hence identical
   Values() *)
Theorem rtopk_equals_sound s a b : rtopk_equals s a b = true ->
  (N.of_nat (length (r_zset s (rt_heap a))) <= rt_k a) -> (N.of_nat (length (r_zset s (rt_heap b))) <= rt_k a) ->
  rt_k a = rt_k b /\ rt_acc a = rt_acc b /\ rt_er a = rt_er b /\
  rcms_equals s (rt_sketch a) (rt_sketch b) = true /\
  r_zset s (rt_heap a) = r_zset s (rt_heap b) /\ rtopk_values s a = rtopk_values s b.
Proof.
  unfold rtopk_equals. destruct (negb (rt_k a =? rt_k b) || negb (rt_acc a =? rt_acc b) || negb (rt_er a =? rt_er b)) eqn:Ep; [discriminate|].
  destruct (rcms_equals s (rt_sketch a) (rt_sketch b)) eqn:Es; [|discriminate]. cbn [negb].
  intros Hz Ha Hb. apply zcmp_sound in Hz; [|lia|lia].
  repeat split; try lia; [exact Hz|]. unfold rtopk_values. rewrite Hz. reflexivity.
Qed.

Theorem rtopk_equals_refl s a : rcms_equals s (rt_sketch a) (rt_sketch a) = true -> rtopk_equals s a a = true.
Proof. intros H. unfold rtopk_equals. rewrite !N.eqb_refl, H. cbn [negb orb]. apply zcmp_refl. Qed.
