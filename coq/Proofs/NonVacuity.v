(* NonVacuity.v — the hypotheses of the Redis-side theorems are met by concrete, non-trivial
   states: closed instances obtained from the constructors on an empty database with concrete
   keys, so that none of those theorems is an implication about nothing. *)
From GX.Model Require Import Base CMS Bloom HLL Cuckoo Heap TopK Redis RedisCMS RedisHLL RedisBloom RedisCuckoo RedisTopK.
From GX.Proofs Require Import ListLemmas CMSProofs HLLProofs RedisProofs RedisCMSRefine RedisHLLRefine
  RedisBloomRefine RedisCuckooInv TopKInv TopKRedisInv RedisTopKDoc FrameProofs CuckooFrame.
From Coq Require Import ZArith Lia Sorted.
Open Scope N_scope.

Definition k_a : bytes := [97;97;97;97].   (* "aaaa" *)
Definition k_b : bytes := [98;98;98;98].   (* "bbbb" *)
Definition k_m : bytes := [109;109;109;109]. (* "mmmm" *)
Definition k_n : bytes := [110;110;110;110]. (* "nnnn" *)

(* every row gets position 1: a legitimate (if poor) position function for 2 x 3 sketches *)
Definition cpos1 (rows cols : N) (x : bytes) : list N := repeat 1 (N.to_nat rows).
Lemma cpos1_len x : length (cpos1 2 3 x) = N.to_nat 2.
Proof. reflexivity. Qed.
Lemma cpos1_lt x p : In p (cpos1 2 3 x) -> p < 3.
Proof. cbn. intros [<-|[<-|[]]]; lia. Qed.

(* Count-Min: a new Redis sketch refines the new in-memory one; after an update both hold 5 *)
Example refines_inhabited : exists s h m, refines 2 3 s h m /\ cms_count cpos1 m [7] = 5.
Proof.
  destruct (rcms_new [] 2 3 k_a k_m) as [r s0] eqn:En.
  assert (Hr : r = Ok (mkRcms 2 3 0 k_a k_m)) by (vm_compute in En; now injection En as <- _).
  subst r. destruct (cms_new 2 3) as [m0|e|p] eqn:Em; try (vm_compute in Em; discriminate).
  pose proof (new_refines cpos1 2 3 cpos1_len cpos1_lt ltac:(lia) [] k_a k_m _ s0 m0 En Em) as H0.
  assert (Hb : cells_below 2 3 m0 (B53 - 5)).
  { vm_compute in Em. injection Em as <-. intros r j Hr Hj. unfold B53.
    assert (r = 0 \/ r = 1) as [->| ->] by lia; assert (j = 0 \/ j = 1 \/ j = 2) as [->|[->| ->]] by lia; vm_compute; reflexivity. }
  destruct (update_refines cpos1 2 3 cpos1_len cpos1_lt ltac:(lia) s0 _ m0 [7] 5 H0 ltac:(unfold B53; vm_compute; reflexivity) Hb)
    as (s1 & Hupd & H1).
  eexists s1, _, _. split; [exact H1|].
  vm_compute in Em. injection Em as <-. vm_compute. reflexivity.
Qed.

(* Bloom: a new Redis filter refines the new in-memory one *)
Example brefines_inhabited : exists s h f, brefines s h f /\ b_size f = 10.
Proof.
  destruct (rbloom_new [] 10 3 k_a k_m) as [r s0] eqn:En.
  assert (Hr : exists h, r = Ok h) by (vm_compute in En; injection En as <- _; eauto).
  destruct Hr as [h ->].
  destruct (bloom_new_params 10 3) as [f|e|p] eqn:Ef; try (vm_compute in Ef; discriminate).
  exists s0, h, f. split.
  - apply (bloom_new_refines [] 10 3 k_a k_m h s0 f En Ef). vm_compute. discriminate.
  - vm_compute in Ef. injection Ef as <-. reflexivity.
Qed.

(* cuckoo: a new Redis filter on fresh keys satisfies the accounting invariant *)
Lemma km_not_bucket i : k_m <> bucket_key k_a i.
Proof. intros E. apply (f_equal (@length N)) in E. unfold bucket_key in E. rewrite !app_length in E. cbn in E. lia. Qed.
Lemma km_not_len i : k_m <> len_key (bucket_key k_a i).
Proof. intros E. apply (f_equal (@length N)) in E. unfold len_key, bucket_key in E. rewrite !app_length in E. cbn in E. lia. Qed.

Example RI_inhabited : exists s, RI k_a k_m 4 2 s /\ tot k_a 4 s = 0%nat.
Proof.
  eexists. apply (rck_new_RI k_a k_m 4 2 km_not_bucket km_not_len ltac:(lia) ltac:(vm_compute; reflexivity) 2 5 (fun _ => 0) ltac:(lia) []).
  - vm_compute. discriminate.
  - intros i _. split; reflexivity.
Qed.

(* two cuckoo filters with different four-letter base keys own disjoint key sets *)
Example cuckoo_disjoint_inhabited : forall k,
  Kck (mkRck 4 2 2 5 k_a k_m) k -> Kck (mkRck 4 2 2 5 k_b k_n) k -> False.
Proof.
  apply cuckoo_keys_disjoint; cbn [rq_key rq_meta]; [reflexivity|vm_compute; discriminate| |].
  - intros [E|[E|(i & [E|E])]]; try (vm_compute in E; discriminate);
      apply (f_equal (@length N)) in E; unfold len_key, bucket_key in E; rewrite !app_length in E; cbn in E; lia.
  - intros [E|[E|(i & [E|E])]]; try (vm_compute in E; discriminate);
      apply (f_equal (@length N)) in E; unfold len_key, bucket_key in E; rewrite !app_length in E; cbn in E; lia.
Qed.

(* Top-K: a new Redis Top-K on fresh keys satisfies the invariant, with an empty, strictly ordered set *)
Example RTI_inhabited : exists s t, RTI cpos1 2 3 s t [] /\ rt_k t = 3 /\ zstrict (heap_of s t).
Proof.
  destruct (rtopk_new [] 3 2 3 0 0 [48] [48] k_a k_m k_b k_n) as [r s0] eqn:En.
  assert (Hr : exists t, r = Ok t) by (vm_compute in En; injection En as <- _; eauto).
  destruct Hr as [t ->].
  destruct (cms_new 2 3) as [m0|e|p] eqn:Em; try (vm_compute in Em; discriminate).
  assert (Hrow : forall key r k, length k = 4%nat -> length key = 4%nat -> row_key key r <> k).
  { intros key r k Hk Hkey E. apply (f_equal (@length N)) in E. unfold row_key in E. rewrite app_length in E.
    pose proof (dec_nonempty r). destruct (dec r); [contradiction|]. cbn in E. lia. }
  destruct (rtopk_new_RTI cpos1 2 3 cpos1_len cpos1_lt [] 3 0 0 [48] [48] k_a k_m k_b k_n t s0 m0 En Em) as [H1 H2];
    try reflexivity; try (vm_compute; discriminate); try (intros r; apply Hrow; reflexivity).
  exists s0, t. split; [exact H1|]. split; [exact H2|].
  unfold heap_of. vm_compute in En. injection En as <- <-. vm_compute. constructor.
Qed.

(* a non-trivial strictly ordered sorted set: equal scores are ordered by member bytes *)
Example zstrict_inhabited : zstrict [([120], 1); ([97], 2); ([98], 2)].
Proof. repeat constructor. Qed.

(* HyperLogLog: a register list of decimal strings represents the registers *)
Example hrefines_inhabited : exists s h mh, hrefines s h mh /\ h_regs mh = [0; 3; 1; 0].
Proof.
  exists [(k_a, VList (map dec [0; 3; 1; 0]))], (mkRhll 4 2 0 k_a k_m), (mkHll 4 2 0 [0; 3; 1; 0]).
  split; [|reflexivity]. unfold hrefines. cbn [rh_m rh_p h_m h_p h_regs rh_key].
  split; [reflexivity|]. split; [reflexivity|]. split.
  - split; [reflexivity|]. repeat constructor; lia.
  - vm_compute. reflexivity.
Qed.

(* C16, the room-for-both regime: two elements whose first bucket is the same, empty, two-slot
   bucket of a new filter - every schedule stores both *)
From GX.Model Require Import Interleave.
From GX.Proofs Require Import CuckooConc.
Definition h64c (x : bytes) : N := match x with [1] => 123456789 | _ => 987654321 end.

Example concurrent_inserts_premises_hold : forall sched, exists s s',
  RI k_a k_m 4 2 s /\
  interleave sched 4 (ck_insert_prog h64c (hdl k_a k_m 4 2 2 5) [1]) (ck_insert_prog h64c (hdl k_a k_m 4 2 2 5) [2]) s = (s', Some 1, Some 1) /\
  RI k_a k_m 4 2 s' /\ tot k_a 4 s' = 2%nat /\ In [49; 50] (blist k_a s' 1) /\ In [57; 56] (blist k_a s' 1).
Proof.
  intros sched.
  destruct (rck_new_RI k_a k_m 4 2 km_not_bucket km_not_len ltac:(lia) ltac:(vm_compute; reflexivity) 2 5 (fun _ => 0) ltac:(lia) [])
    as [HRI Htot]; [vm_compute; discriminate|intros i _; split; reflexivity|].
  set (s := snd (rck_new [] 4 2 2 5 k_a k_m)) in *.
  assert (Hl : blist k_a s 1 = []) by (vm_compute; reflexivity).
  destruct (concurrent_inserts_with_room k_a k_m 4 2 km_not_bucket km_not_len ltac:(lia) ltac:(vm_compute; reflexivity) ltac:(lia)
              2 5 h64c sched 4 s [1] [2] [49; 50] 1 0 [57; 56] 1 0 HRI ltac:(lia))
    as (s' & Ei & HRI' & Ht' & Ha & Hb); try (vm_compute; reflexivity); try lia; try discriminate;
    try (rewrite Hl; cbn; lia).
  exists s, s'. rewrite Htot in Ht'. auto 7.
Qed.
