(* RunRedisHLL.v — Redis-backed HyperLogLog machine (machine 6). *)
From GX.Model Require Import Base HLL Redis RedisCMS RedisHLL.
From GX.Runner Require Import RunCMS RunGeneric RunHLL RunRedisCMS.

Section Run.
Variable orc : oracle.
Let hic := fun p x => match oracle_get orc [p] x with [i; c] => (i, c) | _ => (0, 0) end.
(* getAlpha(m) as IEEE bits: supplied by the harness per register count *)
Let alpha_of := fun m => hd 0 (oracle_get orc [779; m] []).

Definition rhll_step (st : store * list (option rhll)) (op : tok) : (store * list (option rhll)) * tok :=
  let '(s, hs) := st in
  match tok_L op with
  | [TN 0; TN i; TN m; TN al; TB key; TB meta] =>
      match rhll_new s m al key meta with
      | (Ok h, s') => ((s', set_inst hs (N.to_nat i) h), tu (Ok tt))
      | (Err t, s') => ((s', hs), tu (@Err unit t))
      | (Panic t, s') => ((s', hs), tu (@Panic unit t))
      end
  | [TN 1; TN i; TB x] =>
      match get_inst hs i with
      | Some h =>
          match rhll_update hic s h x with
          | (Ok _, s') => ((s', hs), tu (Ok tt))
          | (Err t, s') => ((s', hs), tu (@Err unit t))
          | (Panic t, s') => ((s', hs), tu (@Panic unit t))
          end
      | None => (st, T_INVALID)
      end
  | [TN 2; TN i; TN wc; TN wr; TN c] =>
      match get_inst hs i with
      | Some h =>
          match rhll_hmean_num s h with
          | Some hm =>
              let r := hll_count_check (rh_m h) hm (2 ^ 255) (negb (wc =? 0)) (negb (wr =? 0)) c in
              (st, if r =? 2 then T_WILD else TN r)
          | None => (st, tu (@Err unit E_GENERIC))
          end
      | None => (st, T_INVALID)
      end
  | [TN 3; TN i; TN j] =>
      match get_inst hs i, get_inst hs j with
      | Some a, Some b =>
          match rhll_merge s a b with
          | (Ok _, s') => ((s', hs), tout (fun _ => tunit) (Ok tt))
          | (Err t, s') => ((s', hs), tout (fun _ : unit => tunit) (Err t))
          | (Panic t, s') => ((s', hs), tout (fun _ : unit => tunit) (Panic t))
          end
      | _, _ => (st, T_INVALID)
      end
  | [TN 6; TN i] =>
      match get_inst hs i with
      | Some h => (st, tlistB (r_list s (rh_key h)))
      | None => (st, T_INVALID)
      end
  | [TN 8; TN i; TB meta] =>
      match rhll_attach s meta alpha_of with
      | Ok h => ((s, set_inst hs (N.to_nat i) h), tu (Ok tt))
      | Err t => (st, tu (@Err unit t))
      | Panic t => (st, tu (@Panic unit t))
      end
  | [TN 23; TN i; TN j] =>
      match get_inst hs i, get_inst hs j with
      | Some a, Some b => (st, gerr tbool (Ok (rhll_equals s a b)))
      | _, _ => (st, T_INVALID)
      end
  | [TN 24; TN i] =>
      match get_inst hs i with
      | Some h =>
          (st, gerr (fun regs => TL [TN (rh_m h); TN (rh_p h); TB (orc_ftext orc (rh_alpha h)); TB regs; TB (rh_key h)])
                    (rhll_export_regs s h))
      | None => (st, T_INVALID)
      end
  | [TN 25; TN i; TL [TN m; TN p; TB c; TB regs; TB _]; TB key] =>
      match get_inst hs i with
      | Some h =>
          match rhll_import s h m p (orc_fbits orc c) regs key with
          | (Ok h', s') => ((s', set_inst hs (N.to_nat i) h'), tu (Ok tt))
          | (Err t, s') => ((s', hs), tu (@Err unit t))
          | (Panic t, s') => ((s', hs), tu (@Panic unit t))
          end
      | None => (st, T_INVALID)
      end
  | _ => (st, T_INVALID)
  end.

Fixpoint rhll_run (st : store * list (option rhll)) (ops : list tok) : list tok :=
  match ops with
  | [] => []
  | op :: t => let r := rhll_step st op in snd r :: rhll_run (fst r) t
  end.
End Run.

Definition run_rhll_case (c : list tok) : tok :=
  match c with
  | [orc; ops] => TL (rhll_run (tok_oracle orc) ([], []) (tok_L ops))
  | _ => T_INVALID
  end.
