(* RunRedisBloom.v — Redis-backed Bloom machine (machine 4). *)
From GX.Model Require Import Base Redis RedisCMS RedisBloom.
From GX.Runner Require Import RunCMS RunGeneric RunRedisCMS.

Section Run.
Variable orc : oracle.
Let bpos := fun size k x => oracle_get orc [size; k] x.

Definition rparams (h : rbloom) : tok := TL [TN (rb_size h); TN (rb_k h)].

Definition rbloom_step (st : store * list (option rbloom)) (op : tok) : (store * list (option rbloom)) * tok :=
  let '(s, hs) := st in
  match tok_L op with
  | [TN 0; TN i; TN size0; TN k0; TB key; TB meta] =>
      match rbloom_new s size0 k0 key meta with
      | (Ok h, s') => ((s', set_inst hs (N.to_nat i) h), tout rparams (Ok h))
      | (Err t, s') => ((s', hs), tout rparams (Err t))
      | (Panic t, s') => ((s', hs), tout rparams (Panic t))
      end
  | [TN 1; TN i; TB x] =>
      match get_inst hs i with
      | Some h => match rbloom_insert bpos s h x with
                  | (Ok _, s') => ((s', hs), tunit)
                  | (Err t, s') => ((s', hs), tu (@Err unit t))
                  | (Panic t, s') => ((s', hs), tu (@Panic unit t))
                  end
      | None => (st, T_INVALID)
      end
  | [TN 2; TN i; TB x] =>
      match get_inst hs i with
      | Some h => match rbloom_lookup bpos s h x with
                  | Ok b => (st, tbool b)
                  | Err t => (st, tu (@Err unit t))
                  | Panic t => (st, tu (@Panic unit t))
                  end
      | None => (st, T_INVALID)
      end
  | [TN 3; TN i; TL ws; TN k0; TB key; TB meta] =>
      match rbloom_from_words s (map tok_N ws) k0 key meta with
      | (Ok h, s') => ((s', set_inst hs (N.to_nat i) h), tout rparams (Ok h))
      | (Err t, s') => ((s', hs), tout rparams (Err t))
      | (Panic t, s') => ((s', hs), tout rparams (Panic t))
      end
  | [TN 5; TN i] =>
      match get_inst hs i with
      | Some h => (st, rparams h)
      | None => (st, T_INVALID)
      end
  | [TN 8; TN i; TB meta; TB junk] =>
      match rbloom_attach s meta junk with
      | (Ok h, s') => ((s', set_inst hs (N.to_nat i) h), tu (Ok tt))
      | (Err t, s') => ((s', hs), tu (@Err unit t))
      | (Panic t, s') => ((s', hs), tu (@Panic unit t))
      end
  | [TN 23; TN i; TN j] =>
      match get_inst hs i, get_inst hs j with
      | Some a, Some b => (st, gerr tbool (rbloom_equals s a b))
      | _, _ => (st, T_INVALID)
      end
  | [TN 24; TN i] =>
      match get_inst hs i with
      | Some h => (st, gerr (fun raw => TL [TN (rb_size h); TN (rb_k h); TB raw]) (rbloom_image s h))
      | None => (st, T_INVALID)
      end
  | [TN 25; TN i; TL [TN m; TN k; TB raw]] =>
      match get_inst hs i with
      | Some h =>
          match rbloom_import s h m k raw with
          | (Ok h', s') => ((s', set_inst hs (N.to_nat i) h'), tu (Ok tt))
          | (Err t, s') => ((s', hs), tu (@Err unit t))
          | (Panic t, s') => ((s', hs), tu (@Panic unit t))
          end
      | None => (st, T_INVALID)
      end
  | _ => (st, T_INVALID)
  end.

Fixpoint rbloom_run (st : store * list (option rbloom)) (ops : list tok) : list tok :=
  match ops with
  | [] => []
  | op :: t => let r := rbloom_step st op in snd r :: rbloom_run (fst r) t
  end.
End Run.

Definition run_rbloom_case (c : list tok) : tok :=
  match c with
  | [orc; ops] => TL (rbloom_run (tok_oracle orc) ([], []) (tok_L ops))
  | _ => T_INVALID
  end.
