(* RunCMS.v — token-level driver for the in-memory Count-Min machine.
   A case is  TL [oracle; TL ops]; every op yields one observation token. *)
From GX.Model Require Import Base CMS.

Definition get_inst {A} (l : list (option A)) (i : N) : option A := nth (N.to_nat i) l None.
Fixpoint set_inst {A} (l : list (option A)) (i : nat) (v : A) : list (option A) :=
  match i, l with
  | O, [] => [Some v]
  | O, _ :: t => Some v :: t
  | S j, [] => None :: set_inst [] j v
  | S j, x :: t => x :: set_inst t j v
  end.

Definition T_INVALID : tok := TL [TN 9].
Definition tunit : tok := TL [].

Section Run.
Variable orc : oracle.
Let metro := fun rows cols x => oracle_get orc [rows; cols] x.

Definition cms_step (st : list (option cms)) (op : tok) : list (option cms) * tok :=
  match tok_L op with
  | [TN 0; TN i; TN rows; TN cols] =>
      match cms_new rows cols with
      | Ok s => (set_inst st (N.to_nat i) s, tout (fun _ => tunit) (Ok tt))
      | Err t => (st, tout (fun _ : unit => tunit) (Err t))
      | Panic t => (st, tout (fun _ : unit => tunit) (Panic t))
      end
  | [TN 1; TN i; TB x; TN c] =>
      match get_inst st i with
      | Some s => (set_inst st (N.to_nat i) (cms_update metro s x c), tunit)
      | None => (st, T_INVALID)
      end
  | [TN 2; TN i; TB x] =>
      match get_inst st i with
      | Some s => (st, TN (cms_count metro s x))
      | None => (st, T_INVALID)
      end
  | [TN 3; TN i; TN j] =>
      match get_inst st i, get_inst st j with
      | Some a, Some b =>
          match cms_merge a b with
          | Ok m => (set_inst st (N.to_nat i) m, tout (fun _ => tunit) (Ok tt))
          | Err t => (st, tout (fun _ : unit => tunit) (Err t))
          | Panic t => (st, tout (fun _ : unit => tunit) (Panic t))
          end
      | _, _ => (st, T_INVALID)
      end
  | _ => (st, T_INVALID)
  end.

End Run.


