(* RunTopK.v — token-level driver for the in-memory Top-K machine (machine 9). *)
From GX.Model Require Import Base CMS Heap TopK Codec Persist.
From GX.Runner Require Import RunCMS RunGeneric RunHLL.

Definition tentry (e : hentry) : tok := TL [TB (fst e); TN (snd e)].

Section Run.
Variable orc : oracle.
Let cpos := fun rows cols x => oracle_get orc [rows; cols] x.

Definition tkst := (topk_params * topk)%type.

Definition topk_step (st : list (option tkst)) (op : tok) : list (option tkst) * tok :=
  match tok_L op with
  | [TN 0; TN i; TN k; TN rows; TN cols; TN er; TN acc] =>
      match topk_new k rows cols with
      | Ok t => (set_inst st (N.to_nat i) (mkTP er acc, t), tout (fun _ => tunit) (Ok tt))
      | Err e => (st, tout (fun _ : unit => tunit) (Err e))
      | Panic e => (st, tout (fun _ : unit => tunit) (Panic e))
      end
  | [TN 1; TN i; TB x; TN c] =>
      match get_inst st i with
      | Some (p, t) =>
          match topk_insert cpos t x c with
          | Ok t' => (set_inst st (N.to_nat i) (p, t'), tout (fun _ => tunit) (Ok tt))
          | Err e => (st, tout (fun _ : unit => tunit) (Err e))
          | Panic e => (st, tout (fun _ : unit => tunit) (Panic e))
          end
      | None => (st, T_INVALID)
      end
  | [TN 2; TN i] =>
      match get_inst st i with
      | Some (_, t) => (st, TL (map tentry (topk_values t)))
      | None => (st, T_INVALID)
      end
  | [TN 3; TN i] =>
      match get_inst st i with
      | Some (_, t) => (st, TL (map tentry (t_heap t)))
      | None => (st, T_INVALID)
      end
  | _ => (st, T_INVALID)
  end.

End Run.

Definition topk_mut (s : tkst) (args : list tok) : tkst :=
  match args with
  | [TN i; TB v; TN f] =>
      (fst s, mkTopk (t_k (snd s)) (t_sketch (snd s)) (setnth (t_heap (snd s)) (N.to_nat i) (v, f)))
  | _ => s
  end.
Definition topk_gen (orc : oracle) :=
  @gen_step tkst (fun s => enc_topk (fst s) (snd s)) (fun s => topk_write_ret (snd s))
            (fun b => olet r := dec_topk b in let '(p, t, n, rest) := r in Ok ((p, t), n, rest))
            (fun a b => topk_equals (fst a) (snd a) (fst b) (snd b))
            (fun s => Ok (doc_topk (orc_ftext orc) (fst s) (snd s)))
            (imp_topk (orc_fbits orc)) topk_mut.

Fixpoint topk_run (orc : oracle) (st : list (option tkst)) (ops : list tok) : list tok :=
  match ops with
  | [] => []
  | op :: t =>
      let r := if is_generic op then topk_gen orc st op else topk_step orc st op in
      snd r :: topk_run orc (fst r) t
  end.

Definition run_topk_case (c : list tok) : tok :=
  match c with
  | [orc; ops] => TL (topk_run (tok_oracle orc) [] (tok_L ops))
  | _ => T_INVALID
  end.
