(* RunTopK.v — token-level driver for the in-memory Top-K machine (machine 9). *)
From GX.Model Require Import Base CMS Heap TopK.
From GX.Runner Require Import RunCMS.

Definition tentry (e : hentry) : tok := TL [TB (fst e); TN (snd e)].

Section Run.
Variable orc : oracle.
Let cpos := fun rows cols x => oracle_get orc [rows; cols] x.

Definition topk_step (st : list (option topk)) (op : tok) : list (option topk) * tok :=
  match tok_L op with
  | [TN 0; TN i; TN k; TN rows; TN cols] =>
      match topk_new k rows cols with
      | Ok t => (set_inst st (N.to_nat i) t, tout (fun _ => tunit) (Ok tt))
      | Err e => (st, tout (fun _ : unit => tunit) (Err e))
      | Panic e => (st, tout (fun _ : unit => tunit) (Panic e))
      end
  | [TN 1; TN i; TB x; TN c] =>
      match get_inst st i with
      | Some t =>
          match topk_insert cpos t x c with
          | Ok t' => (set_inst st (N.to_nat i) t', tout (fun _ => tunit) (Ok tt))
          | Err e => (st, tout (fun _ : unit => tunit) (Err e))
          | Panic e => (st, tout (fun _ : unit => tunit) (Panic e))
          end
      | None => (st, T_INVALID)
      end
  | [TN 2; TN i] =>
      match get_inst st i with
      | Some t => (st, TL (map tentry (topk_values t)))
      | None => (st, T_INVALID)
      end
  | [TN 3; TN i] =>
      match get_inst st i with
      | Some t => (st, TL (map tentry (t_heap t)))
      | None => (st, T_INVALID)
      end
  | _ => (st, T_INVALID)
  end.

Fixpoint topk_run (st : list (option topk)) (ops : list tok) : list tok :=
  match ops with
  | [] => []
  | op :: t => let r := topk_step st op in snd r :: topk_run (fst r) t
  end.
End Run.

Definition run_topk_case (c : list tok) : tok :=
  match c with
  | [orc; ops] => TL (topk_run (tok_oracle orc) [] (tok_L ops))
  | _ => T_INVALID
  end.
