(* RunCMS2.v — CMS machine (1) with the generic persistence ops. *)
From GX.Model Require Import Base CMS Codec Persist.
From GX.Runner Require Import RunCMS RunGeneric.

Definition cms_mut (s : cms) (args : list tok) : cms :=
  match args with
  | [TN r; TN c; TN v] =>
      mkCms (c_rows s) (c_cols s) (c_allsum s)
            (upd (c_matrix s) (N.to_nat r) (fun row => setnth row (N.to_nat c) v))
  | _ => s
  end.

Definition cms_gen := @gen_step cms enc_cms cms_write_ret dec_cms cms_equals_o
                        (fun s => Ok (doc_cms s [])) imp_cms cms_mut.

Fixpoint cms_run (orc : oracle) (st : list (option cms)) (ops : list tok) : list tok :=
  match ops with
  | [] => []
  | op :: t =>
      let r := if is_generic op then cms_gen st op else cms_step orc st op in
      snd r :: cms_run orc (fst r) t
  end.

Definition run_cms_case (c : list tok) : tok :=
  match c with
  | [orc; ops] => TL (cms_run (tok_oracle orc) [] (tok_L ops))
  | _ => T_INVALID
  end.
