(* RunBloom.v — token-level driver for the in-memory Bloom machine (machine 3). *)
From GX.Model Require Import Base Bloom Codec Persist.
From GX.Runner Require Import RunCMS RunGeneric.

Definition word_bits (w : N) : list bool := map (N.testbit w) (nseq 64).
Definition words_bits (ws : list N) : list bool := flat_map word_bits ws.

Section Run.
Variable orc : oracle.
Let bpos := fun size k x => oracle_get orc [size; k] x.

Definition tparams (s : bloom) : tok := TL [TN (b_size s); TN (b_k s)].

Definition bloom_step (st : list (option bloom)) (op : tok) : list (option bloom) * tok :=
  match tok_L op with
  | [TN 0; TN i; TN size0; TN k0] =>
      match bloom_new_params size0 k0 with
      | Ok s => (set_inst st (N.to_nat i) s, tout tparams (Ok s))
      | Err t => (st, tout tparams (Err t))
      | Panic t => (st, tout tparams (Panic t))
      end
  | [TN 1; TN i; TB x] =>
      match get_inst st i with
      | Some s => (set_inst st (N.to_nat i) (bloom_insert bpos s x), tunit)
      | None => (st, T_INVALID)
      end
  | [TN 2; TN i; TB x] =>
      match get_inst st i with
      | Some s => (st, tbool (bloom_lookup bpos s x))
      | None => (st, T_INVALID)
      end
  | [TN 3; TN i; TL ws; TN k0] =>
      let s := bloom_from_bits (words_bits (map tok_N ws)) k0 in
      (set_inst st (N.to_nat i) s, tout tparams (Ok s))
  | [TN 4; TN i; TN j] =>
      match get_inst st i, get_inst st j with
      | Some a, Some b => (st, tout tbool (Ok (bloom_equals a b)))
      | _, _ => (st, T_INVALID)
      end
  | [TN 5; TN i] =>
      match get_inst st i with
      | Some s => (st, tparams s)
      | None => (st, T_INVALID)
      end
  | _ => (st, T_INVALID)
  end.

End Run.

Definition bloom_mut (s : bloom) (args : list tok) : bloom :=
  match args with
  | [TN b] => mkBloom (b_size s) (b_k s) (b_bsize s) (bits_set (b_bits s) b)
  | _ => s
  end.
Definition bloom_gen := @gen_step bloom (fun f => Ok (enc_bloom f)) bloom_write_ret dec_bloom
                          (fun a b => Ok (bloom_equals a b)) (fun f => Ok (doc_bloom f)) imp_bloom bloom_mut.

Fixpoint bloom_run (orc : oracle) (st : list (option bloom)) (ops : list tok) : list tok :=
  match ops with
  | [] => []
  | op :: t =>
      let r := if is_generic op then bloom_gen st op else bloom_step orc st op in
      snd r :: bloom_run orc (fst r) t
  end.

Definition run_bloom_case (c : list tok) : tok :=
  match c with
  | [orc; ops] => TL (bloom_run (tok_oracle orc) [] (tok_L ops))
  | _ => T_INVALID
  end.
