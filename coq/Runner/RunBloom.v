(* RunBloom.v — token-level driver for the in-memory Bloom machine (machine 3). *)
From GX.Model Require Import Base Bloom.
From GX.Runner Require Import RunCMS.

Definition word_bits (w : N) : list bool := map (N.testbit w) (nseq 64).
Definition words_bits (ws : list N) : list bool := flat_map word_bits ws.

Section Run.
Variable orc : oracle.
Let bpos := fun size k x => oracle_get orc [size; k] x.

Definition tparams (s : bloom) : tok := TL [TN (b_size s); TN (b_k s)].

Definition bloom_step (st : list (option bloom)) (op : tok) : list (option bloom) * tok :=
  match tok_L op with
  | [TN 0; TN i; TN size0; TN k0] =>
      match bloom_new_params size0 k0 with
      | Ok s => (set_inst st (N.to_nat i) s, tout tparams (Ok s))
      | Err t => (st, tout tparams (Err t))
      | Panic t => (st, tout tparams (Panic t))
      end
  | [TN 1; TN i; TB x] =>
      match get_inst st i with
      | Some s => (set_inst st (N.to_nat i) (bloom_insert bpos s x), tunit)
      | None => (st, T_INVALID)
      end
  | [TN 2; TN i; TB x] =>
      match get_inst st i with
      | Some s => (st, tbool (bloom_lookup bpos s x))
      | None => (st, T_INVALID)
      end
  | [TN 3; TN i; TL ws; TN k0] =>
      let s := bloom_from_bits (words_bits (map tok_N ws)) k0 in
      (set_inst st (N.to_nat i) s, tout tparams (Ok s))
  | [TN 4; TN i; TN j] =>
      match get_inst st i, get_inst st j with
      | Some a, Some b => (st, tout tbool (Ok (bloom_equals a b)))
      | _, _ => (st, T_INVALID)
      end
  | [TN 5; TN i] =>
      match get_inst st i with
      | Some s => (st, tparams s)
      | None => (st, T_INVALID)
      end
  | _ => (st, T_INVALID)
  end.

Fixpoint bloom_run (st : list (option bloom)) (ops : list tok) : list tok :=
  match ops with
  | [] => []
  | op :: t => let r := bloom_step st op in snd r :: bloom_run (fst r) t
  end.
End Run.

Definition run_bloom_case (c : list tok) : tok :=
  match c with
  | [orc; ops] => TL (bloom_run (tok_oracle orc) [] (tok_L ops))
  | _ => T_INVALID
  end.
