(* RunRedisTopK.v — Redis-backed Top-K machine (machine 10). *)
From GX.Model Require Import Base Redis RedisCMS Heap TopK RedisTopK Persist.
From GX.Runner Require Import RunCMS RunGeneric RunHLL RunRedisCMS RunTopK.

Section Run.
Variable orc : oracle.
Let cpos := fun rows cols x => oracle_get orc [rows; cols] x.

Definition rtopk_step (st : store * list (option rtopk)) (op : tok) : (store * list (option rtopk)) * tok :=
  let '(s, hs) := st in
  match tok_L op with
  | [TN 0; TN i; TN k; TN rows; TN cols; TN er; TN acc; TB ertxt; TB acctxt; TB skey; TB smeta; TB hkey; TB meta] =>
      match rtopk_new s k rows cols er acc ertxt acctxt skey smeta hkey meta with
      | (Ok t, s') => ((s', set_inst hs (N.to_nat i) t), tu (Ok tt))
      | (Err e, s') => ((s', hs), tu (@Err unit e))
      | (Panic e, s') => ((s', hs), tu (@Panic unit e))
      end
  | [TN 1; TN i; TB x; TN c] =>
      match get_inst hs i with
      | Some t =>
          match rtopk_insert cpos s t x c with
          | (Ok t', s') => ((s', set_inst hs (N.to_nat i) t'), tout (fun _ => tunit) (Ok tt))
          | (Err e, s') => ((s', hs), tout (fun _ : unit => tunit) (Err E_GENERIC))
          | (Panic e, s') => ((s', hs), tout (fun _ : unit => tunit) (Panic e))
          end
      | None => (st, T_INVALID)
      end
  | [TN 2; TN i] =>
      match get_inst hs i with
      | Some t => (st, TL (map tentry (rtopk_values s t)))
      | None => (st, T_INVALID)
      end
  | [TN 3; TN i] =>
      match get_inst hs i with
      | Some t => (st, TL (map tentry (r_zset s (rt_heap t))))
      | None => (st, T_INVALID)
      end
  | [TN 8; TN i; TB meta; TN er; TN acc] =>
      match rtopk_attach s meta er acc with
      | Ok t => ((s, set_inst hs (N.to_nat i) t), tu (Ok tt))
      | Err e => (st, tu (@Err unit e))
      | Panic e => (st, tu (@Panic unit e))
      end
  | [TN 23; TN i; TN j] =>
      match get_inst hs i, get_inst hs j with
      | Some a, Some b => (st, gerr tbool (Ok (rtopk_equals s a b)))
      | _, _ => (st, T_INVALID)
      end
  | [TN 24; TN i] =>
      match get_inst hs i with
      | Some t =>
          (st, gerr (fun d => d)
                 (Ok (TL [TN (rt_k t); TB (orc_ftext orc (rt_er t)); TB (orc_ftext orc (rt_acc t));
                          rcms_doc s (rt_sketch t);
                          TL (map (fun e => TL [TB (json_string (fst e)); TN (snd e)]) (r_zset s (rt_heap t)));
                          TB (rt_heap t)])))
      | None => (st, T_INVALID)
      end
  | [TN 25; TN i; TL [TN k; TB er; TB acc; TL [TN r; TN c; TN a; TL rows; TB _]; TL hs'; TB _];
     TB hkey; TB skey; TB smeta] =>
      match get_inst hs i with
      | Some t =>
          let s1 := rtopk_import_heap s hkey
                      (flat_map (fun e => match e with TL [TB v; TN f] => [(v, f)] | _ => [] end) hs') in
          match rcms_new s1 r c skey smeta with
          | (Ok sk, s2) =>
              let m := map (fun row => map tok_N (tok_L row)) rows in
              let s3 := rcms_set_matrix s2 skey m in
              let sk' := mkRcms r c a skey smeta in
              let s4 := r_hset s3 (rt_meta t) [(f_k, dec k); (f_heapkey, hkey); (f_errorrate, er);
                                               (f_accuracy, acc); (f_sketchkey, smeta)] in
              ((s4, set_inst hs (N.to_nat i) (mkRtopk k (orc_fbits orc er) (orc_fbits orc acc) sk' hkey (rt_meta t))),
               tu (Ok tt))
          | (Err e, s2) => ((s2, hs), tu (@Err unit e))
          | (Panic e, s2) => ((s2, hs), tu (@Panic unit e))
          end
      | None => (st, T_INVALID)
      end
  | _ => (st, T_INVALID)
  end.

Fixpoint rtopk_run (st : store * list (option rtopk)) (ops : list tok) : list tok :=
  match ops with
  | [] => []
  | op :: t => let r := rtopk_step st op in snd r :: rtopk_run (fst r) t
  end.
End Run.

Definition run_rtopk_case (c : list tok) : tok :=
  match c with
  | [orc; ops] => TL (rtopk_run (tok_oracle orc) ([], []) (tok_L ops))
  | _ => T_INVALID
  end.
