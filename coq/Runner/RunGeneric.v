(* RunGeneric.v — persistence / equality ops shared by all in-memory machines (codes 20..27). *)
From GX.Model Require Import Base.
From GX.Runner Require Import RunCMS.

Section Generic.
Context {S : Type}.
Variable enc : S -> outcome bytes.
Variable wret : S -> N.
Variable dec : bytes -> outcome (S * N * bytes).
Variable equals : S -> S -> outcome bool.
Variable doc : S -> outcome tok.
Variable imp : tok -> outcome S.
Variable mut : S -> list tok -> S.

Definition gerr {A} (f : A -> tok) (o : outcome A) : tok :=
  match o with Ok a => tout f (Ok a) | Err _ => tout f (Err E_GENERIC) | Panic t => tout f (Panic t) end.

Definition class_of {A} (o : outcome A) : N := match o with Ok _ => 0 | Err _ => 1 | Panic _ => 2 end.

Definition gen_step (st : list (option S)) (op : tok) : list (option S) * tok :=
  match tok_L op with
  | [TN 20; TN i] =>
      match get_inst st i with
      | Some s => (st, gerr (fun b => TL [TB b; TN (wret s)]) (enc s))
      | None => (st, T_INVALID)
      end
  | [TN 21; TN i; TB stream] =>
      match get_inst st i with
      | Some _ =>
          match dec stream with
          | Ok (s', n, rest) =>
              (set_inst st (N.to_nat i) s',
               gerr (fun _ : unit => TL [TN n; TN (N.of_nat (length stream - length rest))]) (Ok tt))
          | Err t => (st, gerr (fun _ : unit => tunit) (Err t))
          | Panic t => (st, gerr (fun _ : unit => tunit) (Panic t))
          end
      | None => (st, T_INVALID)
      end
  | [TN 22; TN i; TB stream] =>
      (st, TL (map (fun cut => TN (class_of (dec (firstn cut stream)))) (seq 0 (length stream))))
  | [TN 23; TN i; TN j] =>
      match get_inst st i, get_inst st j with
      | Some a, Some b => (st, gerr tbool (equals a b))
      | _, _ => (st, T_INVALID)
      end
  | [TN 24; TN i] =>
      match get_inst st i with
      | Some s => (st, gerr (fun d => d) (doc s))
      | None => (st, T_INVALID)
      end
  | [TN 25; TN i; d] =>
      match get_inst st i with
      | Some _ =>
          match imp d with
          | Ok s' => (set_inst st (N.to_nat i) s', gerr (fun _ : unit => tunit) (Ok tt))
          | Err t => (st, gerr (fun _ : unit => tunit) (Err t))
          | Panic t => (st, gerr (fun _ : unit => tunit) (Panic t))
          end
      | None => (st, T_INVALID)
      end
  | [TN 26; TN i; TN len] => (st, TL (repeat (TN 1) (N.to_nat len)))
  | TN 27 :: TN i :: args =>
      match get_inst st i with
      | Some s => (set_inst st (N.to_nat i) (mut s args), tunit)
      | None => (st, T_INVALID)
      end
  | _ => (st, T_INVALID)
  end.
End Generic.

Definition is_generic (op : tok) : bool :=
  match tok_L op with TN c :: _ => 20 <=? c | _ => false end.
