(* RunJson.v — machine 13: JSON documents as text (C18, JSON clause).
   op 1: a parsed document (ordered tree; strings and keys with their escaped source text, atoms
         with their literal text) -> its printed text and whether it is a well-formed object/array;
         the harness compares the text with the implementation's own Export bytes.
   op 2: a text -> the lengths of its prefixes that are complete JSON texts for the structural
         scanner; the harness compares with the prefixes Go's encoding/json accepts. *)
From GX.Model Require Import Base JsonText.
From GX.Runner Require Import RunCMS.

Fixpoint tsize (t : tok) : nat :=
  match t with
  | TL l => S ((fix go (l : list tok) : nat := match l with [] => O | x :: r => (tsize x + go r)%nat end) l)
  | _ => 1%nat
  end.

(* tree encoding: atom = (0 bytes), string = (1 bytes), array = (2 item ...), object = (3 (key value) ...) ; strings and keys as escaped source text *)
Fixpoint jv_of (fuel : nat) (t : tok) {struct fuel} : option jval :=
  match fuel with
  | O => None
  | S f =>
      match t with
      | TL [TN 0; TB a] => Some (JAtom a)
      | TL [TN 1; TB a] => Some (JStr a)
      | TL (TN 2 :: items) => match jl_of f items with Some l => Some (JArr l) | None => None end
      | TL (TN 3 :: fields) => match jf_of f fields with Some l => Some (JObj l) | None => None end
      | _ => None
      end
  end
with jl_of (fuel : nat) (l : list tok) {struct fuel} : option jlist :=
  match fuel with
  | O => None
  | S f =>
      match l with
      | [] => Some JNil
      | x :: r => match jv_of f x, jl_of f r with
                  | Some v, Some rr => Some (JCons v rr)
                  | _, _ => None
                  end
      end
  end
with jf_of (fuel : nat) (l : list tok) {struct fuel} : option jfields :=
  match fuel with
  | O => None
  | S f =>
      match l with
      | [] => Some FNil
      | TL [TB k; x] :: r => match jv_of f x, jf_of f r with
                             | Some v, Some rr => Some (FCons k v rr)
                             | _, _ => None
                             end
      | _ => None
      end
  end.

Definition is_container (v : jval) : bool := match v with JArr _ | JObj _ => true | _ => false end.

Definition json_step (op : tok) : tok :=
  match tok_L op with
  | [TN 1; tree] =>
      match jv_of (2 * tsize tree + 2)%nat tree with
      | Some v => TL [TB (jprint v); tbool (jwf v && is_container v)]
      | None => T_INVALID
      end
  | [TN 2; TB text] => tlistN (complete_prefixes jinit 0 text)
  | _ => T_INVALID
  end.

Definition run_json_case (c : list tok) : tok :=
  match c with
  | [_; ops] => TL (map json_step (tok_L ops))
  | _ => T_INVALID
  end.
