(* RunSched.v — machine 12: two clients issue one update call each against the same Redis-backed
   structure under an explicit schedule at Redis-command granularity (C16).
   Case: [orc; TL ops]. Ops:
     (0 kind ...)  create the structure (same forms as the per-structure Redis machines, index 0)
     (1 ...)       a sequential operation of that structure (forwarded to its step function)
     (2 callA callB (sched))  the two concurrent calls; obs = (resultA resultB)
   kind: 1 bloom, 2 cms, 3 hll, 4 cuckoo, 5 topk *)
From GX.Model Require Import Base Murmur Redis RedisCMS RedisHLL RedisBloom RedisCuckoo RedisTopK Interleave.
From GX.Runner Require Import RunCMS RunGeneric RunHLL RunRedisCMS RunRedisHLL RunRedisBloom RunRedisCuckoo RunRedisTopK.

Definition tres (o : option N) : tok := match o with Some r => TN r | None => TL [TN 7] end.
Definition sched_of (t : tok) : list bool := map tok_bool (tok_L t).

Section Run.
Variable orc : oracle.
Let cpos := fun rows cols x => oracle_get orc [rows; cols] x.
Let bpos := fun size k x => oracle_get orc [size; k] x.
Let hic := fun p x => match oracle_get orc [p] x with [i; c] => (i, c) | _ => (0, 0) end.

(* one state per kind; only the one created is used *)
Record sstate := mkSS {
  ss_kind : N;
  ss_bloom : store * list (option rbloom);
  ss_cms : store * list (option rcms);
  ss_hll : store * list (option rhll);
  ss_ck : store * list (option rcuckoo);
  ss_tk : store * list (option rtopk) }.

Definition ss0 : sstate := mkSS 0 ([], []) ([], []) ([], []) ([], []) ([], []).

Definition sched_step (st : sstate) (op : tok) : sstate * tok :=
  match tok_L op with
  | [TN 0; TN kind; inner] =>
      match kind with
      | 1 => let r := rbloom_step orc (ss_bloom st) inner in
             (mkSS 1 (fst r) (ss_cms st) (ss_hll st) (ss_ck st) (ss_tk st), snd r)
      | 2 => let r := rcms_step orc (ss_cms st) inner in
             (mkSS 2 (ss_bloom st) (fst r) (ss_hll st) (ss_ck st) (ss_tk st), snd r)
      | 3 => let r := rhll_step orc (ss_hll st) inner in
             (mkSS 3 (ss_bloom st) (ss_cms st) (fst r) (ss_ck st) (ss_tk st), snd r)
      | 4 => let r := rck_step (ss_ck st) inner in
             (mkSS 4 (ss_bloom st) (ss_cms st) (ss_hll st) (fst r) (ss_tk st), snd r)
      | 5 => let r := rtopk_step orc (ss_tk st) inner in
             (mkSS 5 (ss_bloom st) (ss_cms st) (ss_hll st) (ss_ck st) (fst r), snd r)
      | _ => (st, T_INVALID)
      end
  | [TN 2; ca; cb; sc] =>
      let sched := sched_of sc in
      match ss_kind st with
      | 1 =>
          let '(s, hs) := ss_bloom st in
          match get_inst hs 0, tok_L ca, tok_L cb with
          | Some h, [TB x], [TB y] =>
              let pa := bloom_insert_prog (rb_key h) (bpos (rb_size h) (rb_k h) x) in
              let pb := bloom_insert_prog (rb_key h) (bpos (rb_size h) (rb_k h) y) in
              let '(s', ra, rb) := interleave sched 4000 pa pb s in
              (mkSS 1 (s', hs) (ss_cms st) (ss_hll st) (ss_ck st) (ss_tk st), TL [tres ra; tres rb])
          | _, _, _ => (st, T_INVALID)
          end
      | 2 =>
          let '(s, hs) := ss_cms st in
          match get_inst hs 0, tok_L ca, tok_L cb with
          | Some h, [TB x; TN c], [TB y; TN d] =>
              let '(s', ra, rb) := interleave sched 100 (cms_update_prog cpos h x c) (cms_update_prog cpos h y d) s in
              (mkSS 2 (ss_bloom st) (s', hs) (ss_hll st) (ss_ck st) (ss_tk st), TL [tres ra; tres rb])
          | _, _, _ => (st, T_INVALID)
          end
      | 3 =>
          let '(s, hs) := ss_hll st in
          match get_inst hs 0, tok_L ca, tok_L cb with
          | Some h, [TB x], [TB y] =>
              let '(s', ra, rb) := interleave sched 100 (hll_update_prog hic h x) (hll_update_prog hic h y) s in
              (mkSS 3 (ss_bloom st) (ss_cms st) (s', hs) (ss_ck st) (ss_tk st), TL [tres ra; tres rb])
          | _, _, _ => (st, T_INVALID)
          end
      | 4 =>
          let '(s, hs) := ss_ck st in
          match get_inst hs 0, tok_L ca, tok_L cb with
          | Some h, [TB x], [TB y] =>
              let '(s', ra, rb) := interleave sched 100 (ck_insert_prog murmur64 h x) (ck_insert_prog murmur64 h y) s in
              (mkSS 4 (ss_bloom st) (ss_cms st) (ss_hll st) (s', hs) (ss_tk st), TL [tres ra; tres rb])
          | _, _, _ => (st, T_INVALID)
          end
      | 5 =>
          let '(s, hs) := ss_tk st in
          match get_inst hs 0, tok_L ca, tok_L cb with
          | Some t, [TB x; TN c], [TB y; TN d] =>
              let '(s', ra, rb) := interleave sched 100 (topk_insert_prog cpos t x c) (topk_insert_prog cpos t y d) s in
              (mkSS 5 (ss_bloom st) (ss_cms st) (ss_hll st) (ss_ck st) (s', hs), TL [tres ra; tres rb])
          | _, _, _ => (st, T_INVALID)
          end
      | _ => (st, T_INVALID)
      end
  | _ => (st, T_INVALID)
  end.

Fixpoint sched_run (st : sstate) (ops : list tok) : list tok :=
  match ops with
  | [] => []
  | op :: t => let r := sched_step st op in snd r :: sched_run (fst r) t
  end.
End Run.

Definition run_sched_case (c : list tok) : tok :=
  match c with
  | [orc; ops] => TL (sched_run (tok_oracle orc) ss0 (tok_L ops))
  | _ => T_INVALID
  end.
