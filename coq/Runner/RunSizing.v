(* RunSizing.v — machine 11: the concrete probe / row / rank formulas of the code. The sizing
   formulas (ops 0-2, 6-8) are checked by the harness against reference values; the model echoes
   the harness' verdict tokens for them (wildcard). *)
From GX.Model Require Import Base Bloom CMS HLL.
From GX.Runner Require Import RunCMS RunHLL.

Definition sizing_step (op : tok) : tok :=
  match tok_L op with
  | [TN 3; TN size; TN k; TB x; TN h1; TN h2] =>
      tlistN (bpos_metro (fun _ => (h1, h2)) (N.max size 1) (N.max k 1) x)
  | [TN 4; TN rows; TN cols; TB x; TN h1; TN h2] =>
      tlistN (cpos_metro (fun _ => (h1, h2)) rows cols x)
  | [TN 5; TN p; TB x; TN h1] =>
      let ic := hll_index_count p h1 in TL [TN (fst ic); TN (snd ic)]
  | _ => T_WILD
  end.

Definition run_sizing_case (c : list tok) : tok :=
  match c with
  | [_; ops] => TL (map sizing_step (tok_L ops))
  | _ => T_INVALID
  end.
