(* RunCuckoo.v — token-level driver for the in-memory cuckoo machine (machine 7).
   The hash is the concrete murmur model (repo code). *)
From GX.Model Require Import Base Murmur Cuckoo Codec Persist.
From GX.Runner Require Import RunCMS RunGeneric.

Definition tbucket (b : bucket) : tok := TL [TN (k_size b); TN (k_len b); tlistB (k_slots b)].
Definition tstate (f : cuckoo) : tok := TL [TN (q_len f); TL (map tbucket (q_buckets f))].

(* did the insert enter the eviction branch? (both candidate buckets full) *)
Definition ck_evicts (f : cuckoo) (x : bytes) : bool :=
  match ck_positions murmur64 f x with
  | Ok (fp, i1, i2) =>
      match get_bucket f i1, get_bucket f i2 with
      | Ok b1, Ok b2 => negb (bk_is_free b1) && negb (bk_is_free b2)
      | _, _ => false
      end
  | _ => false
  end.

Definition ck_step (st : list (option cuckoo)) (op : tok) : list (option cuckoo) * tok :=
  match tok_L op with
  | [TN 0; TN i; TN size; TN bsize; TN fpl; TN retries] =>
      (set_inst st (N.to_nat i) (ck_new size bsize fpl retries), tunit)
  | [TN 1; TN i; TB x; TN destr; TN coin; TL draws] =>
      match get_inst st i with
      | Some f =>
          let ev := tbool (ck_evicts f x) in
          match ck_insert murmur64 f x (negb (destr =? 0)) (negb (coin =? 0)) (map tok_N draws) with
          | InsOk f' => (set_inst st (N.to_nat i) f', TL [tout tbool (Ok true); ev])
          | InsFull f' => (set_inst st (N.to_nat i) f', TL [tout tbool (Panic P_FULL); ev])
          | InsPanic t f' => (set_inst st (N.to_nat i) f', TL [tout tbool (Panic t); ev])
          end
      | None => (st, T_INVALID)
      end
  | [TN 2; TN i; TB x] =>
      match get_inst st i with
      | Some f => (st, tout tbool (ck_lookup murmur64 f x))
      | None => (st, T_INVALID)
      end
  | [TN 3; TN i; TB x] =>
      match get_inst st i with
      | Some f =>
          match ck_remove murmur64 f x with
          | Ok (r, f') => (set_inst st (N.to_nat i) f', tout tbool (Ok r))
          | Err t => (st, tout tbool (Err t))
          | Panic t => (st, tout tbool (Panic t))
          end
      | None => (st, T_INVALID)
      end
  | [TN 4; TN i] =>
      match get_inst st i with
      | Some f => (st, TN (q_len f))
      | None => (st, T_INVALID)
      end
  | [TN 5; TN i] =>
      match get_inst st i with
      | Some f => (st, tstate f)
      | None => (st, T_INVALID)
      end
  | [TN 6; TB x] => (st, TN (murmur64 x))
  | _ => (st, T_INVALID)
  end.

Definition ck_mut (f : cuckoo) (args : list tok) : cuckoo :=
  match args with
  | [TN b; TN s; TB fp] =>
      mkCuckoo (q_size f) (q_bsize f) (q_fpl f) (q_retries f) (q_len f)
               (upd (q_buckets f) (N.to_nat b) (fun bk => bk_set bk (N.to_nat s) fp))
  | _ => f
  end.
Definition ck_gen := @gen_step cuckoo enc_cuckoo cuckoo_write_ret dec_cuckoo ck_equals
                       doc_cuckoo imp_cuckoo ck_mut.

Fixpoint ck_run (st : list (option cuckoo)) (ops : list tok) : list tok :=
  match ops with
  | [] => []
  | op :: t =>
      let r := if is_generic op then ck_gen st op else ck_step st op in
      snd r :: ck_run (fst r) t
  end.

Definition run_cuckoo_case (c : list tok) : tok :=
  match c with
  | [_; ops] => TL (ck_run [] (tok_L ops))
  | _ => T_INVALID
  end.
