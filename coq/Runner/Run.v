(* Run.v — top-level dispatch: TL (TN machine :: args).
   Machines: 1 CMS mem, 3 Bloom mem, 5 HLL mem, 7 Cuckoo mem. *)
From GX.Model Require Import Base.
From GX.Runner Require Import RunCMS RunCMS2 RunBloom RunHLL RunCuckoo RunTopK RunRedisCMS RunRedisHLL RunRedisBloom RunRedisTopK RunRedisCuckoo RunSizing RunSched RunJson.

Definition run_case (c : tok) : tok :=
  match tok_L c with
  | TN 1 :: args => run_cms_case args
  | TN 2 :: args => run_rcms_case args
  | TN 3 :: args => run_bloom_case args
  | TN 4 :: args => run_rbloom_case args
  | TN 5 :: args => run_hll_case args
  | TN 6 :: args => run_rhll_case args
  | TN 7 :: args => run_cuckoo_case args
  | TN 8 :: args => run_rck_case args
  | TN 9 :: args => run_topk_case args
  | TN 10 :: args => run_rtopk_case args
  | TN 11 :: args => run_sizing_case args
  | TN 12 :: args => run_sched_case args
  | TN 13 :: args => run_json_case args
  | _ => T_INVALID
  end.
