(* Run.v — top-level dispatch: TL (TN machine :: args) *)
From GX.Model Require Import Base.
From GX.Runner Require Import RunCMS.

Definition run_case (c : tok) : tok :=
  match tok_L c with
  | TN 1 :: args => run_cms_case args
  | _ => T_INVALID
  end.
