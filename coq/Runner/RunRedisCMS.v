(* RunRedisCMS.v — Redis-backed Count-Min machine (machine 2): state = (store, handles). *)
From GX.Model Require Import Base Redis RedisCMS Persist CMS.
From GX.Runner Require Import RunCMS RunGeneric.

Section Run.
Variable orc : oracle.
Let cpos := fun rows cols x => oracle_get orc [rows; cols] x.

Definition tu {A} (o : outcome A) : tok := gerr (fun _ => tunit) o.

Definition rcms_doc (s : store) (h : rcms) : tok :=
  TL [TN (rc_rows h); TN (rc_cols h); TN (rc_allsum h); TL (map tlistN (rcms_matrix s h)); TB (rc_key h)].

Definition rcms_step (st : store * list (option rcms)) (op : tok) : (store * list (option rcms)) * tok :=
  let '(s, hs) := st in
  match tok_L op with
  | [TN 0; TN i; TN rows; TN cols; TB key; TB meta] =>
      match rcms_new s rows cols key meta with
      | (Ok h, s') => ((s', set_inst hs (N.to_nat i) h), tu (Ok tt))
      | (Err t, s') => ((s', hs), tu (@Err unit t))
      | (Panic t, s') => ((s', hs), tu (@Panic unit t))
      end
  | [TN 1; TN i; TB x; TN c] =>
      match get_inst hs i with
      | Some h =>
          match rcms_update cpos s h x c with
          | (Ok h', s') => ((s', set_inst hs (N.to_nat i) h'), tunit)
          | (Err t, s') => ((s', hs), tu (@Err unit t))
          | (Panic t, s') => ((s', hs), tu (@Panic unit t))
          end
      | None => (st, T_INVALID)
      end
  | [TN 2; TN i; TB x] =>
      match get_inst hs i with
      | Some h => match rcms_count cpos s h x with
                  | Ok n => (st, TN n)
                  | Err t => (st, tu (@Err unit t))
                  | Panic t => (st, tu (@Panic unit t))
                  end
      | None => (st, T_INVALID)
      end
  | [TN 3; TN i; TN j] =>
      match get_inst hs i, get_inst hs j with
      | Some a, Some b =>
          match rcms_merge s a b with
          | (Ok _, s') => ((s', hs), tout (fun _ => tunit) (Ok tt))
          | (Err t, s') => ((s', hs), tout (fun _ : unit => tunit) (Err t))
          | (Panic t, s') => ((s', hs), tout (fun _ : unit => tunit) (Panic t))
          end
      | _, _ => (st, T_INVALID)
      end
  | [TN 8; TN i; TB meta] =>
      match rcms_attach s meta with
      | Ok h => ((s, set_inst hs (N.to_nat i) h), tu (Ok tt))
      | Err t => (st, tu (@Err unit t))
      | Panic t => (st, tu (@Panic unit t))
      end
  | [TN 23; TN i; TN j] =>
      match get_inst hs i, get_inst hs j with
      | Some a, Some b => (st, gerr tbool (Ok (rcms_equals s a b)))
      | _, _ => (st, T_INVALID)
      end
  | [TN 24; TN i] =>
      match get_inst hs i with
      | Some h => (st, gerr (fun d => d) (Ok (rcms_doc s h)))
      | None => (st, T_INVALID)
      end
  | [TN 25; TN i; TL [TN r; TN c; TN a; TL rows; TB _]; TB key] =>
      match get_inst hs i with
      | Some h =>
          let m := map (fun row => map tok_N (tok_L row)) rows in
          match m with
          | [] => (st, tu (@Panic unit P_INDEX))       (* len(matrix[0]) on an empty matrix *)
          | _ =>
              let s1 := rcms_set_matrix s key m in
              let s2 := r_hset s1 (rc_meta h) [(f_rows, dec r); (f_columns, dec c); (f_key, key)] in
              ((s2, set_inst hs (N.to_nat i) (mkRcms r c a key (rc_meta h))), tu (Ok tt))
          end
      | None => (st, T_INVALID)
      end
  | _ => (st, T_INVALID)
  end.

Fixpoint rcms_run (st : store * list (option rcms)) (ops : list tok) : list tok :=
  match ops with
  | [] => []
  | op :: t => let r := rcms_step st op in snd r :: rcms_run (fst r) t
  end.
End Run.

Definition run_rcms_case (c : list tok) : tok :=
  match c with
  | [orc; ops] => TL (rcms_run (tok_oracle orc) ([], []) (tok_L ops))
  | _ => T_INVALID
  end.
