(* RunHLL.v — token-level driver for the in-memory HyperLogLog machine (machine 5). *)
From GX.Model Require Import Base HLL Codec Persist.
From GX.Runner Require Import RunCMS RunGeneric.

Definition T_WILD : tok := TL [TN 77].

Section Run.
Variable orc : oracle.
Let hic := fun p x => match oracle_get orc [p] x with
                      | [i; c] => (i, c)
                      | _ => (0, 0)
                      end.

Definition tu {A} (o : outcome A) : tok := tout (fun _ => tunit) o.

Definition hll_step (st : list (option hll)) (op : tok) : list (option hll) * tok :=
  match tok_L op with
  | [TN 0; TN i; TN m; TN al] =>
      match hll_new m al with
      | Ok s => (set_inst st (N.to_nat i) s, tu (Ok tt))
      | Err t => (st, tu (@Err unit t))
      | Panic t => (st, tu (@Panic unit t))
      end
  | [TN 1; TN i; TB x] =>
      match get_inst st i with
      | Some s =>
          match hll_update hic s x with
          | Ok s' => (set_inst st (N.to_nat i) s', tu (Ok tt))
          | Err t => (st, tu (@Err unit t))
          | Panic t => (st, tu (@Panic unit t))
          end
      | None => (st, T_INVALID)
      end
  | [TN 2; TN i; TN wc; TN wr; TN c] =>
      match get_inst st i with
      | Some s =>
          let r := hll_count_check (h_m s) (hll_hsum_num s) (2 ^ 255)
                     (negb (wc =? 0)) (negb (wr =? 0)) c in
          (st, if r =? 2 then T_WILD else TN r)
      | None => (st, T_INVALID)
      end
  | [TN 3; TN i; TN j] =>
      match get_inst st i, get_inst st j with
      | Some a, Some b =>
          match hll_merge a b with
          | Ok s' => (set_inst st (N.to_nat i) s', tu (Ok tt))
          | Err t => (st, tu (@Err unit t))
          | Panic t => (st, tu (@Panic unit t))
          end
      | _, _ => (st, T_INVALID)
      end
  | [TN 4; TN i; TN j] =>
      match get_inst st i, get_inst st j with
      | Some a, Some b => (st, tout tbool (hll_equals a b))
      | _, _ => (st, T_INVALID)
      end
  | [TN 5; TN i] =>
      match get_inst st i with
      | Some s => (set_inst st (N.to_nat i) (hll_reset s), tunit)
      | None => (st, T_INVALID)
      end
  | [TN 6; TN i] =>
      match get_inst st i with
      | Some s => (st, tlistN (h_regs s))
      | None => (st, T_INVALID)
      end
  | _ => (st, T_INVALID)
  end.

End Run.

Definition orc_ftext (orc : oracle) (bits : N) : bytes := oracle_get orc [778; bits] [].
Definition orc_fbits (orc : oracle) (txt : bytes) : N := hd 0 (oracle_get orc [777] txt).

Definition hll_mut (s : hll) (args : list tok) : hll :=
  match args with
  | [TN i; TN v] => mkHll (h_m s) (h_p s) (h_alpha s) (setnth (h_regs s) (N.to_nat i) v)
  | _ => s
  end.
Definition hll_gen (orc : oracle) :=
  @gen_step hll (fun h => Ok (enc_hll h)) hll_write_ret dec_hll hll_equals
            (fun h => Ok (doc_hll (orc_ftext orc) h)) (imp_hll (orc_fbits orc)) hll_mut.

Fixpoint hll_run (orc : oracle) (st : list (option hll)) (ops : list tok) : list tok :=
  match ops with
  | [] => []
  | op :: t =>
      let r := if is_generic op then hll_gen orc st op else hll_step orc st op in
      snd r :: hll_run orc (fst r) t
  end.

Definition run_hll_case (c : list tok) : tok :=
  match c with
  | [orc; ops] => TL (hll_run (tok_oracle orc) [] (tok_L ops))
  | _ => T_INVALID
  end.
