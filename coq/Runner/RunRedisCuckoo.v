(* RunRedisCuckoo.v — Redis-backed cuckoo machine (machine 8); concrete murmur3. *)
From GX.Model Require Import Base Murmur Redis RedisCMS Cuckoo RedisCuckoo.
From GX.Runner Require Import RunCMS RunGeneric RunRedisCMS.

Definition rck_state (s : store) (h : rcuckoo) : tok :=
  TL [TN (rck_length s h);
      TL (map (fun i => let bk := bucket_key (rq_key h) i in
                        TL [TN (rq_bsize h); TN (rbk_get_length s bk); tlistB (r_list s bk)])
              (nseq (rq_size h)))].

Definition rck_evicts (s : store) (h : rcuckoo) (x : bytes) : bool :=
  match rck_positions murmur64 h x with
  | Ok (fp, i1, i2) =>
      negb (rq_size h =? 0) &&
      negb (rbk_is_free s (bucket_key (rq_key h) i1) (rq_bsize h)) &&
      negb (rbk_is_free s (bucket_key (rq_key h) i2) (rq_bsize h))
  | _ => false
  end.

Definition rck_step (st : store * list (option rcuckoo)) (op : tok) : (store * list (option rcuckoo)) * tok :=
  let '(s, hs) := st in
  match tok_L op with
  | [TN 0; TN i; TN size; TN bsize; TN fpl; TN retries; TB key; TB meta] =>
      let '(h, s') := rck_new s size bsize fpl retries key meta in
      ((s', set_inst hs (N.to_nat i) h), tunit)
  | [TN 1; TN i; TB x; TN destr; TN coin; TL draws] =>
      match get_inst hs i with
      | Some h =>
          let ev := tbool (rck_evicts s h x) in
          match rck_insert murmur64 s h x (negb (destr =? 0)) (negb (coin =? 0)) (map tok_N draws) with
          | RInsOk s' => ((s', hs), TL [tout tbool (Ok true); ev])
          | RInsFull s' => ((s', hs), TL [tout tbool (Panic P_FULL); ev])
          | RInsPanic t s' => ((s', hs), TL [tout tbool (Panic t); ev])
          end
      | None => (st, T_INVALID)
      end
  | [TN 2; TN i; TB x] =>
      match get_inst hs i with
      | Some h => (st, tout tbool (rck_lookup murmur64 s h x))
      | None => (st, T_INVALID)
      end
  | [TN 3; TN i; TB x] =>
      match get_inst hs i with
      | Some h => let '(r, s') := rck_remove murmur64 s h x in ((s', hs), tout tbool r)
      | None => (st, T_INVALID)
      end
  | [TN 4; TN i] =>
      match get_inst hs i with
      | Some h => (st, TN (rck_length s h))
      | None => (st, T_INVALID)
      end
  | [TN 5; TN i] =>
      match get_inst hs i with
      | Some h => (st, rck_state s h)
      | None => (st, T_INVALID)
      end
  | [TN 6; TB x] => (st, TN (murmur64 x))
  | [TN 23; TN i; TN j] =>
      match get_inst hs i, get_inst hs j with
      | Some a, Some b => (st, gerr tbool (Ok (rck_equals s a b)))
      | _, _ => (st, T_INVALID)
      end
  | [TN 24; TN i] =>
      match get_inst hs i with
      | Some h =>
          (st, gerr (fun d => d)
                 (Ok (TL [TN (rq_size h); TN (rq_bsize h); TN (rq_fpl h); TN (rck_length s h); TN (rq_retries h);
                          TL (map (fun b => let '(bs, l, e, k) := b in TL [TN bs; TN l; tlistB e; TB k])
                                  (rck_export_buckets s h));
                          TB (rq_key h); TB (rq_meta h)])))
      | None => (st, T_INVALID)
      end
  | [TN 25; TN i; TL [TN size; TN bsize; TN fpl; TN len; TN retries; TL bks; TB dkey; TB dmeta];
     TN withnew; TB key; TB meta] =>
      match get_inst hs i with
      | Some _ =>
          if N.of_nat (length bks) =? size then
            let elems := map (fun b => match b with
                                       | TL [_; _; TL e; _] => map tok_B e
                                       | _ => []
                                       end) bks in
            let '(h, s') := rck_import s size bsize fpl retries len elems
                                       (if withnew =? 0 then dkey else key)
                                       (if withnew =? 0 then dmeta else meta) in
            ((s', set_inst hs (N.to_nat i) h), gerr (fun _ : unit => tunit) (Ok tt))
          else (st, (TL [TN 77]))
      | None => (st, T_INVALID)
      end
  | [TN 8; TN i; TB meta] =>
      let '(h, s') := rck_attach s meta in ((s', set_inst hs (N.to_nat i) h), tu (Ok tt))
  | _ => (st, T_INVALID)
  end.

Fixpoint rck_run (st : store * list (option rcuckoo)) (ops : list tok) : list tok :=
  match ops with
  | [] => []
  | op :: t => let r := rck_step st op in snd r :: rck_run (fst r) t
  end.

Definition run_rck_case (c : list tok) : tok :=
  match c with
  | [_; ops] => TL (rck_run ([], []) (tok_L ops))
  | _ => T_INVALID
  end.
