(* GENERATED from /verif/known-findings.txt (property=C07 sig=lock:Type.Method) *)
From Coq Require Import List String.
Import ListNotations.
Open Scope string_scope.
Definition known_unlocked : list string := ["TopK.Equals"; "CuckooFilter.Equals"; "CountMinSketch.Merge"; "CountMinSketch.Equals"; "HyperLogLog.Merge"; "HyperLogLog.Equals"; "BloomFilter.Equals"].
