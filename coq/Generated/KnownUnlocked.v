(* GENERATED from /verif/known-findings.txt (property=C07 sig=lock:Type.Method) *)
From Coq Require Import List String.
Import ListNotations.
Open Scope string_scope.
Definition known_unlocked : list string := ["TopK.Insert"; "TopK.Values"; "TopK.Export"; "TopK.WriteTo"; "TopK.Equals"; "CuckooFilter.Length"; "CuckooFilter.Export"; "CuckooFilter.WriteTo"; "CuckooFilter.Equals"; "CountMinSketch.Export"; "CountMinSketch.WriteTo"; "CountMinSketch.Merge"; "CountMinSketch.Equals"; "HyperLogLog.Reset"; "HyperLogLog.Export"; "HyperLogLog.WriteTo"; "HyperLogLog.Merge"; "HyperLogLog.Equals"; "BloomFilter.BloomPositiveRate"; "BloomFilter.Export"; "BloomFilter.WriteTo"; "BloomFilter.Equals"].
