(* Extraction of the executable model. ExtrOcamlBasic only: bool, option, unit, list, prod,
   sumbool, sumor, comparison map to OCaml's; N/positive stay Coq's inductive types. *)
From Coq Require Import Extraction ExtrOcamlBasic.
From GX.Model Require Import Base.
From GX.Runner Require Import Run.
Extraction "model.ml" run_case N.of_uint N.to_uint.
