(* C12 — merging Count-Min sketches equals sketching the combined stream.
   Statements only; every proof is `exact <lemma>` into Proofs/. *)
From GX.Model Require Import Base CMS.
From GX.Model Require Import Redis RedisCMS.
From GX.Proofs Require Import ListLemmas CMSProofs CMSApi RedisCMSRefine.

Section Mem.
Variable cpos : N -> N -> bytes -> list N.
Variable rows cols : N.
Hypothesis cpos_len : forall x, length (cpos rows cols x) = N.to_nat rows.
Hypothesis cpos_lt : forall x p, In p (cpos rows cols x) -> p < cols.

(* A <- B succeeds, has the matrix of the single sketch fed ha ++ hb, answers every Count alike *)
Theorem C12_mem_merge_is_combined_stream : forall sa sb ha hb,
  cms_new rows cols = Ok sa -> cms_new rows cols = Ok sb -> total (ha ++ hb) < two64 ->
  exists m, cms_merge (run_hist cpos sa ha) (run_hist cpos sb hb) = Ok m /\
            c_matrix m = c_matrix (run_hist cpos sa (ha ++ hb)) /\
            forall x, cms_count cpos m x = cms_count cpos (run_hist cpos sa (ha ++ hb)) x.
Proof. exact (api_merge cpos rows cols cpos_len cpos_lt). Qed.

Theorem C12_mem_merge_commutes : forall sa sb ha hb ma mb,
  cms_new rows cols = Ok sa -> cms_new rows cols = Ok sb -> total (ha ++ hb) < two64 ->
  cms_merge (run_hist cpos sa ha) (run_hist cpos sb hb) = Ok ma ->
  cms_merge (run_hist cpos sb hb) (run_hist cpos sa ha) = Ok mb ->
  c_matrix ma = c_matrix mb.
Proof. exact (api_merge_comm cpos rows cols cpos_len cpos_lt). Qed.

Theorem C12_mem_merge_three_any_order : forall sa sb sc ha hb hc m1 m2 m3 m4,
  cms_new rows cols = Ok sa -> cms_new rows cols = Ok sb -> cms_new rows cols = Ok sc ->
  total (ha ++ hb ++ hc) < two64 ->
  cms_merge (run_hist cpos sa ha) (run_hist cpos sb hb) = Ok m1 ->
  cms_merge m1 (run_hist cpos sc hc) = Ok m2 ->
  cms_merge (run_hist cpos sa ha) (run_hist cpos sc hc) = Ok m3 ->
  cms_merge m3 (run_hist cpos sb hb) = Ok m4 ->
  c_matrix m2 = c_matrix m4.
Proof. exact (api_merge3 cpos rows cols cpos_len cpos_lt). Qed.

Theorem C12_mem_merge_then_update : forall sa sb ha hb hc m x,
  cms_new rows cols = Ok sa -> cms_new rows cols = Ok sb -> total (ha ++ hb ++ hc) < two64 ->
  cms_merge (run_hist cpos sa ha) (run_hist cpos sb hb) = Ok m ->
  cms_count cpos (run_hist cpos m hc) x = cms_count cpos (run_hist cpos sa (ha ++ hb ++ hc)) x.
Proof. exact (api_merge_then_update cpos rows cols cpos_len cpos_lt). Qed.
End Mem.

(* sketches of different dimensions are rejected with an error; since cms_merge returns the new
   receiver as a value, an error (and equally a success) leaves the argument untouched and an
   error leaves the receiver untouched — the runner keeps the old states on Err. *)
Theorem C12_mem_mismatch_rejected : forall a b,
  ~ (c_rows a = c_rows b /\ c_cols a = c_cols b) -> cms_merge a b = Err E_MISMATCH.
Proof. exact merge_err. Qed.

Example C12_premises_hold : exists sa sb, cms_new 2 3 = Ok sa /\ cms_new 2 3 = Ok sb /\
  total ([([1], 5)] ++ [([2], 7)]) < two64.
Proof. do 2 eexists; repeat split; try reflexivity. Qed.

(* Redis-backed variant, through the refinement: if the two handles' row lists represent the
   matrices ma and mb (different base keys of equal length, counters below bounds whose sum fits
   2^53), the Lua merge script succeeds and leaves a store in which the receiver represents
   exactly cms_merge ma mb and the argument is unchanged - so every clause proved above for the
   in-memory merge (combined stream, commutativity, later updates) carries over to the Redis
   variant for counters below 2^53. *)
Theorem C12_redis_merge_refines : forall (cpos : N -> N -> bytes -> list N) rows cols,
  (forall x, length (cpos rows cols x) = N.to_nat rows) ->
  (forall x p, In p (cpos rows cols x) -> p < cols) ->
  forall s a b ma mb Ba Bb, 0 < cols ->
  refines rows cols s a ma -> refines rows cols s b mb ->
  length (rc_key a) = length (rc_key b) -> rc_key a <> rc_key b ->
  cells_below rows cols ma Ba -> cells_below rows cols mb Bb -> Ba + Bb <= B53 ->
  exists s' m, cms_merge ma mb = Ok m /\ rcms_merge s a b = (Ok tt, s') /\
               refines rows cols s' a m /\ refines rows cols s' b mb.
Proof. exact merge_refines. Qed.

Print Assumptions C12_mem_merge_is_combined_stream.
Print Assumptions C12_mem_merge_commutes.
Print Assumptions C12_mem_merge_three_any_order.
Print Assumptions C12_mem_merge_then_update.
Print Assumptions C12_mem_mismatch_rejected.
Print Assumptions C12_redis_merge_refines.

(* Redis: sketches of different dimensions are rejected and the store (both sketches) is left as it was *)
From GX.Proofs Require RedisExtras.
Theorem C12_redis_mismatch_rejected : forall s a b,
  rc_rows a <> rc_rows b \/ rc_cols a <> rc_cols b -> rcms_merge s a b = (Err E_MISMATCH, s).
Proof. exact RedisExtras.rcms_merge_mismatch. Qed.
Print Assumptions C12_redis_mismatch_rejected.

(* Redis, end to end: two Redis-backed sketches representing the sketches of two streams (totals
   below 2^53); after Merge the receiver answers every Count exactly as ONE sketch fed the
   concatenated stream, and the argument still represents its own stream *)
From GX.Proofs Require RedisCMSMerge.
Theorem C12_redis_merge_is_combined_stream : forall (cpos : N -> N -> bytes -> list N) rows cols,
  (forall x, length (cpos rows cols x) = N.to_nat rows) ->
  (forall x p, In p (cpos rows cols x) -> p < cols) ->
  forall s a b sa sb ha hb,
  cms_new rows cols = Ok sa -> cms_new rows cols = Ok sb -> total (ha ++ hb) + 2 <= B53 ->
  refines rows cols s a (run_hist cpos sa ha) -> refines rows cols s b (run_hist cpos sb hb) ->
  length (rc_key a) = length (rc_key b) -> rc_key a <> rc_key b ->
  exists s', rcms_merge s a b = (Ok tt, s') /\
    (forall x, rcms_count cpos s' a x = Ok (cms_count cpos (run_hist cpos sa (ha ++ hb)) x)) /\
    refines rows cols s' b (run_hist cpos sb hb).
Proof. exact RedisCMSMerge.redis_merge_is_combined_stream. Qed.
Print Assumptions C12_redis_merge_is_combined_stream.

(* non-vacuity: two new Redis sketches created one after the other in one store meet the premises
   of the end-to-end theorem (with empty histories) *)
From GX.Proofs Require Import NonVacuity.
From Coq Require Import Lia.
Example C12_redis_two_sketches_in_one_store :
  exists s a b sa sb, cms_new 2 3 = Ok sa /\ cms_new 2 3 = Ok sb /\
    refines 2 3 s a (run_hist cpos1 sa []) /\ refines 2 3 s b (run_hist cpos1 sb []) /\
    length (rc_key a) = length (rc_key b) /\ rc_key a <> rc_key b.
Proof.
  destruct (cms_new 2 3) as [m0|e|p] eqn:Em; try (vm_compute in Em; discriminate).
  exists (snd (rcms_new (snd (rcms_new [] 2 3 k_a k_m)) 2 3 k_b k_n)), (mkRcms 2 3 0 k_a k_m), (mkRcms 2 3 0 k_b k_n), m0, m0.
  split; [reflexivity|]. split; [reflexivity|].
  vm_compute in Em. injection Em as <-.
  assert (R : forall key, (key = k_a \/ key = k_b) ->
     rows_are 2 (snd (rcms_new (snd (rcms_new [] 2 3 k_a k_m)) 2 3 k_b k_n)) key (Lm (mkCms 2 3 0 [[0;0;0];[0;0;0]]))).
  { intros key Hk r Hr. assert (r = 0 \/ r = 1) as [->| ->] by lia; destruct Hk as [->| ->]; vm_compute; reflexivity. }
  split; [|split; [|split; [reflexivity|vm_compute; discriminate]]].
  - split; [reflexivity|]. split; [reflexivity|]. split; [|apply R; left; reflexivity].
    unfold run_hist; cbn [fold_left]. split; [reflexivity|]. split; [reflexivity|]. split; [reflexivity|].
    intros r Hr. assert (r = 0 \/ r = 1)%nat as [->| ->] by lia; reflexivity.
  - split; [reflexivity|]. split; [reflexivity|]. split; [|apply R; right; reflexivity].
    unfold run_hist; cbn [fold_left]. split; [reflexivity|]. split; [reflexivity|]. split; [reflexivity|].
    intros r Hr. assert (r = 0 \/ r = 1)%nat as [->| ->] by lia; reflexivity.
Qed.
