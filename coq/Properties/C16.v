(* C16 — concurrent updates to a Redis-backed structure are not lost. Statements only.
   Model: an API call is a program of atomic steps (one Redis command, or one whole Lua script);
   a schedule interleaves the steps of the clients (Model/Interleave.v).
   PROVED, for any number of clients and any schedule (every interleaving executes a permutation
   of the same atomic updates): the final Bloom bits, Count-Min matrix and HyperLogLog registers
   equal those of the updates applied one after another — because each update is ONE atomic step
   (Bloom: one SETBIT per probe) and these steps commute.
   PROVED for the cuckoo filter in the regime where the clause holds: two clients inserting
   concurrently (isFree script, add script, HINCRBY as separate round trips) under ANY schedule,
   when the first candidate bucket of each element has at least two free slots: both report
   success, both fingerprints are stored, every bucket counter still equals its occupied slots
   and Length has grown by exactly two (C16_cuckoo_room_for_both).
   REFUTED with kernel-checked witness schedules (replayed on the implementation by the
   command-granularity scheduler, known findings): two concurrent cuckoo inserts racing for one
   free slot both report success while one element is not findable and Length exceeds the
   stored entries; two concurrent Top-K inserts both evict and a heavier element is lost. *)
From GX.Model Require Import Base Bloom CMS HLL Murmur Redis RedisCMS RedisHLL RedisCuckoo RedisTopK Interleave.
From GX.Proofs Require Import ListLemmas CMSProofs HLLProofs InterleaveProofs.
From Coq Require Import Permutation.

(* generic: pairwise commuting atomic updates give the same state under every permutation *)
Theorem C16_commuting_updates : forall (S : Type) (fs gs : list (S -> S)) (s : S),
  Permutation fs gs -> pairwise_commute fs -> apply_all fs s = apply_all gs s.
Proof. intros S. exact (@commuting_updates S). Qed.

Theorem C16_bloom : forall l l' bits, Permutation l l' ->
  forall j, bits_test (fold_left bits_set l bits) j = bits_test (fold_left bits_set l' bits) j.
Proof. exact bloom_bits_order_independent. Qed.

Section CMS.
Variable cpos : N -> N -> bytes -> list N.
Variable rows cols : N.
Hypothesis cpos_len : forall x, length (cpos rows cols x) = N.to_nat rows.
Hypothesis cpos_lt : forall x p, In p (cpos rows cols x) -> p < cols.
Theorem C16_cms : forall s0 h h', cms_new rows cols = Ok s0 -> Permutation h h' -> total h < two64 ->
  c_matrix (run_hist cpos s0 h) = c_matrix (run_hist cpos s0 h').
Proof. exact (cms_order_independent cpos rows cols cpos_len cpos_lt). Qed.
End CMS.

Theorem C16_hll : forall ivs ivs' regs, Forall (fun r => r < 256) regs -> Permutation ivs ivs' ->
  fold_left rupd ivs regs = fold_left rupd ivs' regs.
Proof. exact hll_order_independent. Qed.

Theorem C16_cuckoo_refuted :
  let '(s, ra, rb) := interleave ck_sched 20 (ck_insert_prog murmur64 ck_h ck_x) (ck_insert_prog murmur64 ck_h ck_y) ck_s0 in
  ra = Some 1 /\ rb = Some 1 /\ rck_length s ck_h = 2 /\
  length (r_list s (bucket_key [107] 0)) = 1%nat /\ rck_lookup murmur64 s ck_h ck_y = Ok false.
Proof. exact cuckoo_concurrent_insert_lost. Qed.

Theorem C16_topk_refuted :
  let '(s, ra, rb) := interleave tk_sched 30 (topk_insert_prog tk_cpos tk_h tk_y 10)
                                 (topk_insert_prog tk_cpos tk_h tk_w 20) tk_s0 in
  ra = Some 1 /\ rb = Some 1 /\ r_zset s (rt_heap tk_h) = [(tk_w, 20)].
Proof. exact topk_concurrent_inserts_lose_heavy_element. Qed.

(* the regime in which the cuckoo clause holds *)
From GX.Model Require Import Cuckoo.
From GX.Proofs Require Import CuckooInv RedisCuckooInv CuckooConc NonVacuity.
Theorem C16_cuckoo_room_for_both : forall (key meta : bytes) (size bsize : N),
  (forall i, meta <> bucket_key key i) -> (forall i, meta <> len_key (bucket_key key i)) ->
  1 <= bsize -> bsize < 2 ^ 62 -> 0 < size ->
  forall (fpl retries : N) (h64 : bytes -> N) (sched : list bool) (fuel : nat) (s : store)
         (x y fa : bytes) (ia ia2 : N) (fb : bytes) (ib ib2 : N),
  RI key meta size bsize s -> (4 <= fuel)%nat ->
  rck_positions h64 (hdl key meta size bsize fpl retries) x = Ok (fa, ia, ia2) ->
  rck_positions h64 (hdl key meta size bsize fpl retries) y = Ok (fb, ib, ib2) ->
  ia < size -> ib < size -> fa <> [] -> fb <> [] ->
  (occ (blist key s ia) + 2 <= N.to_nat bsize)%nat -> (occ (blist key s ib) + 2 <= N.to_nat bsize)%nat ->
  exists s', interleave sched fuel (ck_insert_prog h64 (hdl key meta size bsize fpl retries) x)
                                   (ck_insert_prog h64 (hdl key meta size bsize fpl retries) y) s = (s', Some 1, Some 1) /\
    RI key meta size bsize s' /\ tot key size s' = (tot key size s + 2)%nat /\
    In fa (blist key s' ia) /\ In fb (blist key s' ib).
Proof. exact concurrent_inserts_with_room. Qed.

Example C16_cuckoo_room_premises_hold : forall sched, exists s s',
  RI k_a k_m 4 2 s /\
  interleave sched 4 (ck_insert_prog h64c (hdl k_a k_m 4 2 2 5) [1]) (ck_insert_prog h64c (hdl k_a k_m 4 2 2 5) [2]) s = (s', Some 1, Some 1) /\
  RI k_a k_m 4 2 s' /\ tot k_a 4 s' = 2%nat /\ In [49; 50] (blist k_a s' 1) /\ In [57; 56] (blist k_a s' 1).
Proof. exact concurrent_inserts_premises_hold. Qed.


Print Assumptions C16_commuting_updates.
Print Assumptions C16_bloom.
Print Assumptions C16_cms.
Print Assumptions C16_hll.
Print Assumptions C16_cuckoo_refuted.
Print Assumptions C16_topk_refuted.
Print Assumptions C16_cuckoo_room_for_both.

(* Top-K, the regime in which the clause holds: two clients insert two different, not yet tracked
   elements concurrently (each insert = its separate Redis round trips), under ANY schedule. If the
   sorted set has room for both (size + 2 <= k), nothing is popped or removed: every tracked entry
   stays, each client that obtained a count ends up tracked (result 1), and the set grows by exactly
   the number of such clients. Nothing is assumed about the sketch (the counts read may be anything);
   the complement of the double-ZPOPMIN witness above. *)
From GX.Proofs Require TopKInv TopKConc RedisProofs.
From Coq Require Import Lia ZifyN ZifyNat.
Theorem C16_topk_room_for_both : forall (cpos : N -> N -> bytes -> list N) t,
  (forall r, row_key (rc_key (rt_sketch t)) r <> rt_heap t) ->
  forall sched fuel s x cx y cy,
  (8 <= fuel)%nat -> x <> y ->
  NoDup (TopKInv.names (r_zset s (rt_heap t))) ->
  ~ In x (TopKInv.names (r_zset s (rt_heap t))) -> ~ In y (TopKInv.names (r_zset s (rt_heap t))) ->
  (length (r_zset s (rt_heap t)) + 2 <= N.to_nat (rt_k t))%nat ->
  exists s' ra rb,
    interleave sched fuel (topk_insert_prog cpos t x cx) (topk_insert_prog cpos t y cy) s = (s', Some ra, Some rb) /\
    let z' := r_zset s' (rt_heap t) in
    NoDup (TopKInv.names z') /\ incl (r_zset s (rt_heap t)) z' /\
    length z' = (length (r_zset s (rt_heap t)) + TopKConc.b2n (N.eqb ra 1) + TopKConc.b2n (N.eqb rb 1))%nat /\
    (In x (TopKInv.names z') <-> ra = 1) /\ (In y (TopKInv.names z') <-> rb = 1).
Proof. exact TopKConc.concurrent_inserts_with_room. Qed.
Print Assumptions C16_topk_room_for_both.

(* non-vacuity: a new Top-K (k = 3) on fresh keys, two different elements, one concrete alternating
   schedule evaluated: both clients return 1 and both elements are tracked afterwards *)
Example C16_topk_room_premises_hold :
  let r := rtopk_new [] 3 2 3 0 0 [48] [48] k_a k_m k_b k_n in
  exists t, fst r = Ok t /\
    (forall q, row_key (rc_key (rt_sketch t)) q <> rt_heap t) /\
    r_zset (snd r) (rt_heap t) = [] /\ (0 + 2 <= N.to_nat (rt_k t))%nat /\
    let '(s', ra, rb) := interleave [true; false; true; false; true; false; true; false; true; false; true; false; true; false] 9
                           (topk_insert_prog cpos1 t [1] 5) (topk_insert_prog cpos1 t [2] 7) (snd r) in
    ra = Some 1 /\ rb = Some 1 /\ map fst (r_zset s' (rt_heap t)) = [[1]; [2]].
Proof.
  cbv zeta. eexists. split; [vm_compute; reflexivity|]. split.
  - intros q E. apply (f_equal (@length N)) in E. cbn [rt_sketch rt_heap rc_key] in E. unfold row_key in E.
    rewrite app_length in E. pose proof (RedisProofs.dec_nonempty q). destruct (dec q); [contradiction|]. cbn in E. lia.
  - split; [vm_compute; reflexivity|]. split; [vm_compute; lia|]. vm_compute. repeat split; reflexivity.
Qed.

(* ---------- on the interleaving semantics itself (the semantics the scheduler follows) ---------- *)
From GX.Proofs Require InterleaveSeq.
(* an update that is one atomic script (Count-Min Update, HyperLogLog Update): under ANY schedule two
   concurrent updates end as the two updates one after the other, in one of the two orders *)
Theorem C16_single_script_updates_serialise : forall sched fuel l1 f1 r1 l2 f2 r2 s, (2 <= fuel)%nat ->
  interleave sched fuel (InterleaveSeq.one_step l1 f1 r1) (InterleaveSeq.one_step l2 f2 r2) s = (f2 (f1 s), Some r1, Some r2) \/
  interleave sched fuel (InterleaveSeq.one_step l1 f1 r1) (InterleaveSeq.one_step l2 f2 r2) s = (f1 (f2 s), Some r1, Some r2).
Proof. exact InterleaveSeq.one_step_interleave. Qed.
Print Assumptions C16_single_script_updates_serialise.
Theorem C16_cms_and_hll_updates_are_single_scripts : forall cpos hic hc hh x c,
  cms_update_prog cpos hc x c = InterleaveSeq.one_step L_EVAL (fun s => snd (rcms_update cpos s hc x c)) 1 /\
  hll_update_prog hic hh x = InterleaveSeq.one_step L_EVAL (fun s => snd (rhll_update hic s hh x)) 1.
Proof. intros. split; reflexivity. Qed.
(* the Bloom insert is one SETBIT per probe position, each its own step: under ANY schedule of two
   concurrent inserts both return, and afterwards exactly the probe positions of both inserts have
   been added to the bits that were set (what the two inserts one after another give) *)
Theorem C16_bloom_interleaved_inserts : forall key j sched fuel psa psb s, (length psa + length psb < fuel)%nat ->
  exists s', interleave sched fuel (bloom_insert_prog key psa) (bloom_insert_prog key psb) s = (s', Some 1, Some 1) /\
             r_getbit s' key j = InterleaveSeq.has j psa || InterleaveSeq.has j psb || r_getbit s key j.
Proof. exact InterleaveSeq.bloom_interleave. Qed.
Print Assumptions C16_bloom_interleaved_inserts.
