(* C16 — concurrent updates to a Redis-backed structure are not lost. Statements only.
   Model: an API call is a program of atomic steps (one Redis command, or one whole Lua script);
   a schedule interleaves the steps of the clients (Model/Interleave.v).
   PROVED, for any number of clients and any schedule (every interleaving executes a permutation
   of the same atomic updates): the final Bloom bits, Count-Min matrix and HyperLogLog registers
   equal those of the updates applied one after another — because each update is ONE atomic step
   (Bloom: one SETBIT per probe) and these steps commute.
   REFUTED with kernel-checked witness schedules (replayed on the implementation by the
   command-granularity scheduler, known findings): two concurrent cuckoo inserts racing for one
   free slot both report success while one element is not findable and Length exceeds the
   stored entries; two concurrent Top-K inserts both evict and a heavier element is lost. *)
From GX.Model Require Import Base Bloom CMS HLL Murmur Redis RedisCMS RedisHLL RedisCuckoo RedisTopK Interleave.
From GX.Proofs Require Import ListLemmas CMSProofs HLLProofs InterleaveProofs.
From Coq Require Import Permutation.

(* generic: pairwise commuting atomic updates give the same state under every permutation *)
Theorem C16_commuting_updates : forall (S : Type) (fs gs : list (S -> S)) (s : S),
  Permutation fs gs -> pairwise_commute fs -> apply_all fs s = apply_all gs s.
Proof. intros S. exact (@commuting_updates S). Qed.

Theorem C16_bloom : forall l l' bits, Permutation l l' ->
  forall j, bits_test (fold_left bits_set l bits) j = bits_test (fold_left bits_set l' bits) j.
Proof. exact bloom_bits_order_independent. Qed.

Section CMS.
Variable cpos : N -> N -> bytes -> list N.
Variable rows cols : N.
Hypothesis cpos_len : forall x, length (cpos rows cols x) = N.to_nat rows.
Hypothesis cpos_lt : forall x p, In p (cpos rows cols x) -> p < cols.
Theorem C16_cms : forall s0 h h', cms_new rows cols = Ok s0 -> Permutation h h' -> total h < two64 ->
  c_matrix (run_hist cpos s0 h) = c_matrix (run_hist cpos s0 h').
Proof. exact (cms_order_independent cpos rows cols cpos_len cpos_lt). Qed.
End CMS.

Theorem C16_hll : forall ivs ivs' regs, Forall (fun r => r < 256) regs -> Permutation ivs ivs' ->
  fold_left rupd ivs regs = fold_left rupd ivs' regs.
Proof. exact hll_order_independent. Qed.

Theorem C16_cuckoo_refuted :
  let '(s, ra, rb) := interleave ck_sched 20 (ck_insert_prog murmur64 ck_h ck_x) (ck_insert_prog murmur64 ck_h ck_y) ck_s0 in
  ra = Some 1 /\ rb = Some 1 /\ rck_length s ck_h = 2 /\
  length (r_list s (bucket_key [107] 0)) = 1%nat /\ rck_lookup murmur64 s ck_h ck_y = Ok false.
Proof. exact cuckoo_concurrent_insert_lost. Qed.

Theorem C16_topk_refuted :
  let '(s, ra, rb) := interleave tk_sched 30 (topk_insert_prog tk_cpos tk_h tk_y 10)
                                 (topk_insert_prog tk_cpos tk_h tk_w 20) tk_s0 in
  ra = Some 1 /\ rb = Some 1 /\ r_zset s (rt_heap tk_h) = [(tk_w, 20)].
Proof. exact topk_concurrent_inserts_lose_heavy_element. Qed.

Print Assumptions C16_commuting_updates.
Print Assumptions C16_bloom.
Print Assumptions C16_cms.
Print Assumptions C16_hll.
Print Assumptions C16_cuckoo_refuted.
Print Assumptions C16_topk_refuted.
