(* C19 — structures sharing one Redis database do not interfere. Statements only.
   Proved: the key-derivation maps are injective for equal-length base keys (the library uses
   16-letter random keys), decimal suffixes are injective, and every primitive command the
   library issues changes the value of its own key only (frame lemmas), so a command of one
   structure cannot change what another structure reads as long as their derived keys differ.
   The assumption that freshly generated base keys are distinct from all live ones
   (time-seeded PRNG over 52^16 strings) is not provable; the harness checks it on every run.
   Lifted to whole programs: operations that are LOCAL to disjoint key sets cannot influence
   each other - in any interleaving each structure's operations give exactly the answers they
   give alone (C19_non_interference, generic); Update and Count of the Redis Count-Min sketch
   are local to the sketch's row keys, and sketches with different 16-letter base keys have
   disjoint row keys (C19_cms_structures_do_not_interfere); HyperLogLog's and Bloom's calls are
   local to their single data key; the cuckoo filter's Insert (whole eviction loop and roll-back),
   Lookup, Remove and Length are local to its bucket lists, their counters and its metadata hash,
   and two filters with different 16-letter base keys own disjoint keys
   (C19_cuckoo_filters_do_not_interfere); Top-K's Insert and Values are local to its sketch rows
   and its sorted set. So all five kinds are covered by theorems for their updates and queries.
   The other half - what the OTHER structures may do meanwhile - needs less: a foreign call may
   read anything as long as it writes outside the first structure's keys
   (C19_non_interference_foreign), and creation, import (under any keys) and re-attachment of all
   five kinds are proved to write only the keys of the structure they create or attach to
   (C19_*_writes_own_keys). What remains assumed is that freshly generated base keys differ from
   all live ones; the harness checks that on every run, runs 2-8 live structures of mixed kinds
   in one miniredis with interleaved histories, diffs each structure's answers against its model
   run alone on an empty store, and a monitor checks that a structure's answers change only
   through operations on its own handles. *)
From GX.Model Require Import Base Redis RedisCMS RedisHLL RedisBloom RedisCuckoo Heap TopK RedisTopK.
From GX.Proofs Require Import ListLemmas RedisProofs FrameProofs CuckooFrame TopKFrame FrameAll.
From GX.Proofs Require Import NonVacuity.

Theorem C19_decimal_injective : forall a b, dec a = dec b -> a = b.
Proof. exact dec_injective. Qed.

Theorem C19_row_key_injective : forall k k' r r',
  length k = length k' -> row_key k r = row_key k' r' -> k = k' /\ r = r'.
Proof. exact row_key_injective. Qed.

Theorem C19_set_frame : forall s k v k', k' <> k -> sget (r_set s k v) k' = sget s k'.
Proof. exact r_set_frame. Qed.
Theorem C19_setbit_frame : forall s k i k', k' <> k -> sget (r_setbit1 s k i) k' = sget s k'.
Proof. exact r_setbit1_frame. Qed.
Theorem C19_lpush_frame : forall s k vs k', k' <> k -> sget (r_lpush s k vs) k' = sget s k'.
Proof. exact r_lpush_frame. Qed.
Theorem C19_rpush_frame : forall s k vs k', k' <> k -> sget (r_rpush s k vs) k' = sget s k'.
Proof. exact r_rpush_frame. Qed.
Theorem C19_lset_frame : forall s k i v s', r_lset s k i v = Some s' ->
  forall k', k' <> k -> sget s' k' = sget s k'.
Proof. exact r_lset_frame. Qed.
Theorem C19_hset_frame : forall s k fs k', k' <> k -> sget (r_hset s k fs) k' = sget s k'.
Proof. exact r_hset_frame. Qed.
Theorem C19_zadd_frame : forall s k m sc k', k' <> k -> sget (r_zadd s k m sc) k' = sget s k'.
Proof. exact r_zadd_frame. Qed.
Theorem C19_del_frame : forall s k k', k' <> k -> sget (sdel s k) k' = sget s k'.
Proof. exact sdel_frame. Qed.

(* creating a Count-Min sketch touches only its own row keys and its metadata key *)
Theorem C19_cms_init_frame : forall s key rows cols k',
  (forall r, row_key key r <> k') -> sget (cms_init_rows s key rows cols) k' = sget s k'.
Proof. exact init_rows_frame. Qed.

(* whole programs: operations local to disjoint key sets do not interfere, in any interleaving *)
Theorem C19_non_interference : forall (O : Type) (K1 K2 : keyset),
  (forall k, K1 k -> K2 k -> False) ->
  forall prog, Forall (well_tagged O K1 K2) prog ->
  forall s s', agree K1 s s' -> run_mixed O s prog = run_alone O s' prog.
Proof. exact non_interference. Qed.

Theorem C19_cms_update_local : forall cpos h x count, local (Kcms (rc_key h)) (op_update cpos h x count).
Proof. exact update_local. Qed.
Theorem C19_cms_count_local : forall cpos h x, local (Kcms (rc_key h)) (op_count cpos h x).
Proof. exact count_local. Qed.

Theorem C19_cms_structures_do_not_interfere : forall key1 key2 prog s,
  length key1 = length key2 -> key1 <> key2 ->
  Forall (well_tagged (outcome N) (Kcms key1) (Kcms key2)) prog ->
  run_mixed (outcome N) s prog = run_alone (outcome N) s prog.
Proof. exact cms_structures_do_not_interfere. Qed.

(* HyperLogLog and Bloom: every call reads and writes the one data key only, so structures with
   different data keys do not interfere (C19_non_interference with K = {key}) *)
Theorem C19_hll_update_local : forall hic h x, local (Kone (rh_key h)) (op_hll_update hic h x).
Proof. exact hll_update_local. Qed.
Theorem C19_hll_registers_local : forall h, local (Kone (rh_key h)) (op_hll_regs h).
Proof. exact hll_regs_local. Qed.
Theorem C19_bloom_insert_local : forall bpos h x, local (Kone (rb_key h)) (op_bloom_insert bpos h x).
Proof. exact bloom_insert_local. Qed.
Theorem C19_bloom_lookup_local : forall bpos h x, local (Kone (rb_key h)) (op_bloom_lookup bpos h x).
Proof. exact bloom_lookup_local. Qed.
Theorem C19_single_keys_disjoint : forall k1 k2, k1 <> k2 -> forall k, Kone k1 k -> Kone k2 k -> False.
Proof. exact keys_disjoint_one. Qed.

(* cuckoo filter: every call is local to the filter's own keys *)
Theorem C19_cuckoo_insert_local : forall h64 h x destructive coin draws,
  local (Kck h) (op_ck_insert h64 h x destructive coin draws).
Proof. exact ck_insert_local. Qed.
Theorem C19_cuckoo_lookup_local : forall h64 h x, local (Kck h) (op_ck_lookup h64 h x).
Proof. exact ck_lookup_local. Qed.
Theorem C19_cuckoo_remove_local : forall h64 h x, local (Kck h) (op_ck_remove h64 h x).
Proof. exact ck_remove_local. Qed.
Theorem C19_cuckoo_length_local : forall h, local (Kck h) (op_ck_length h).
Proof. exact ck_length_local. Qed.
Theorem C19_cuckoo_keys_disjoint : forall h1 h2,
  length (rq_key h1) = length (rq_key h2) -> rq_key h1 <> rq_key h2 ->
  ~ Kck h2 (rq_meta h1) -> ~ Kck h1 (rq_meta h2) ->
  forall k, Kck h1 k -> Kck h2 k -> False.
Proof. exact cuckoo_keys_disjoint. Qed.
Theorem C19_cuckoo_filters_do_not_interfere : forall O h1 h2 (prog : list (tagged_op O)) s,
  length (rq_key h1) = length (rq_key h2) -> rq_key h1 <> rq_key h2 ->
  ~ Kck h2 (rq_meta h1) -> ~ Kck h1 (rq_meta h2) ->
  Forall (well_tagged O (Kck h1) (Kck h2)) prog ->
  run_mixed O s prog = run_alone O s prog.
Proof. exact cuckoo_filters_do_not_interfere. Qed.

(* Top-K: Insert and Values are local to the sketch's rows and the sorted set *)
Theorem C19_topk_insert_local : forall cpos t x c, local (Ktk t) (op_tk_insert cpos t x c).
Proof. exact tk_insert_local. Qed.
Theorem C19_topk_values_local : forall t, local (Ktk t) (op_tk_values t).
Proof. exact tk_values_local. Qed.

(* the other half: foreign calls only have to write elsewhere *)
Theorem C19_non_interference_foreign : forall (O : Type) (K1 : keyset) (prog : list (step O)),
  Forall (step_ok O K1) prog ->
  forall s s', agree K1 s s' -> run_mixed' O s prog = run_alone' O s' prog.
Proof. exact non_interference_foreign. Qed.
Theorem C19_confined_calls_are_foreign_steps : forall (O : Type) (K1 K2 : keyset) (g : store -> store),
  (forall k, K1 k -> K2 k -> False) -> writes_only K2 g -> step_ok O K1 (Foreign O g).
Proof. exact foreign_of_writes_only. Qed.
Theorem C19_local_calls_write_own_keys : forall (O : Type) (K : keyset) (f : op O),
  local K f -> writes_only K (fun s => fst (f s)).
Proof. exact @local_writes_only. Qed.

(* creation, import and re-attachment write only the keys of their own structure *)
Theorem C19_cms_new_writes_own_keys : forall s rows cols key meta k, ~ Kcms_all key meta k ->
  sget (snd (rcms_new s rows cols key meta)) k = sget s k.
Proof. exact cms_new_writes. Qed.
Theorem C19_cms_import_writes_own_keys : forall key m s k, ~ Kcms key k -> sget (rcms_set_matrix s key m) k = sget s k.
Proof. exact set_matrix_writes. Qed.
Theorem C19_hll_new_writes_own_keys : forall s m alpha key meta k, ~ Kpair key meta k ->
  sget (snd (rhll_new s m alpha key meta)) k = sget s k.
Proof. exact hll_new_writes. Qed.
Theorem C19_hll_import_writes_own_keys : forall s h m p alpha regs key k, ~ Kpair key (rh_meta h) k ->
  sget (snd (rhll_import s h m p alpha regs key)) k = sget s k.
Proof. exact hll_import_writes. Qed.
Theorem C19_bloom_new_writes_own_keys : forall s size0 k0 key meta k, ~ Kpair key meta k ->
  sget (snd (rbloom_new s size0 k0 key meta)) k = sget s k.
Proof. exact bloom_new_writes. Qed.
Theorem C19_bloom_attach_writes_junk_only : forall s meta junk k, k <> junk ->
  sget (snd (rbloom_attach s meta junk)) k = sget s k.
Proof. exact bloom_attach_writes. Qed.
Theorem C19_bloom_import_writes_own_keys : forall s h m k0 raw k, ~ Kpair (rb_key h) (rb_meta h) k ->
  sget (snd (rbloom_import s h m k0 raw)) k = sget s k.
Proof. exact bloom_import_writes. Qed.
Theorem C19_cuckoo_new_writes_own_keys : forall s size bsize fpl retries key meta k,
  ~ Kck (mkRck size bsize fpl retries key meta) k ->
  sget (snd (rck_new s size bsize fpl retries key meta)) k = sget s k.
Proof. exact ck_new_writes. Qed.
Theorem C19_cuckoo_attach_writes_own_keys : forall s meta k, ~ Kck (fst (rck_attach s meta)) k ->
  sget (snd (rck_attach s meta)) k = sget s k.
Proof. exact ck_attach_writes. Qed.
Theorem C19_cuckoo_import_writes_own_keys : forall s size bsize fpl retries len bks key meta k,
  ~ Kck (mkRck size bsize fpl retries key meta) k ->
  sget (snd (rck_import s size bsize fpl retries len bks key meta)) k = sget s k.
Proof. exact ck_import_writes. Qed.
Theorem C19_topk_new_writes_own_keys : forall s k0 rows cols er acc ertxt acctxt skey smeta hkey meta k,
  ~ Ktk_all skey smeta hkey meta k ->
  sget (snd (rtopk_new s k0 rows cols er acc ertxt acctxt skey smeta hkey meta)) k = sget s k.
Proof. exact topk_new_writes. Qed.
Theorem C19_topk_import_heap_writes_own_key : forall s hkey entries k, k <> hkey ->
  sget (rtopk_import_heap s hkey entries) k = sget s k.
Proof. exact topk_import_heap_writes. Qed.

Example C19_cuckoo_disjointness_premises_hold : forall k,
  Kck (mkRck 4 2 2 5 k_a k_m) k -> Kck (mkRck 4 2 2 5 k_b k_n) k -> False.
Proof. exact cuckoo_disjoint_inhabited. Qed.

Print Assumptions C19_decimal_injective.
Print Assumptions C19_row_key_injective.
Print Assumptions C19_lset_frame.
Print Assumptions C19_cms_init_frame.
Print Assumptions C19_non_interference.
Print Assumptions C19_cms_structures_do_not_interfere.
Print Assumptions C19_hll_update_local.
Print Assumptions C19_bloom_insert_local.
Print Assumptions C19_cuckoo_insert_local.
Print Assumptions C19_cuckoo_filters_do_not_interfere.
Print Assumptions C19_topk_insert_local.
Print Assumptions C19_non_interference_foreign.
Print Assumptions C19_cuckoo_import_writes_own_keys.
Print Assumptions C19_topk_new_writes_own_keys.
