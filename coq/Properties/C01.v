(* C01 — Bloom filter never returns a false negative. Statements only. *)
From GX.Model Require Import Base Bloom.
From GX.Model Require Import Redis RedisBloom.
From GX.Proofs Require Import ListLemmas BloomProofs RedisBloomProofs.

Section Mem.
(* any probe-position function: hence any hash, any size >= 1, any numHashes *)
Variable bpos : N -> N -> bytes -> list N.

(* for every filter state s (any size/k/bits), every history ops1 of inserts and lookups, an
   insert of x, and every further history ops2: a lookup of x answers true.  Insert/InsertString
   and Lookup/LookupString are the same operation on the same bytes (bop carries bytes). *)
Theorem C01_mem_no_false_negative : forall s ops1 x ops2,
  bloom_lookup bpos (brun bpos (bloom_insert bpos (brun bpos s ops1) x) ops2) x = true.
Proof. exact (no_false_negative bpos). Qed.

(* a freshly constructed filter reports every element absent (given at least one probe) *)
Theorem C01_mem_empty_all_absent : forall size0 k0 s x,
  bloom_new_params size0 k0 = Ok s -> bpos (b_size s) (b_k s) x <> [] ->
  bloom_lookup bpos s x = false.
Proof. exact (empty_all_absent bpos). Qed.
End Mem.

(* constructors clamp size and numHashes to >= 1, so the code's probe list is never empty *)
Theorem C01_ctor_clamps : forall size0 k0 s,
  bloom_new_params size0 k0 = Ok s -> 1 <= b_size s /\ 1 <= b_k s.
Proof. exact ctor_clamps. Qed.

Theorem C01_from_bitset_clamps : forall bits k0,
  1 <= b_size (bloom_from_bits bits k0) /\ 1 <= b_k (bloom_from_bits bits k0).
Proof. exact from_bits_clamps. Qed.

Theorem C01_code_probes_nonempty_in_range : forall metro size k x,
  1 <= k -> 0 < size ->
  bpos_metro metro size k x <> [] /\ forall p, In p (bpos_metro metro size k x) -> p < size.
Proof.
  intros metro size k x Hk Hs. split.
  - exact (bpos_metro_nonempty metro size k x Hk).
  - intros p. exact (bpos_metro_lt metro size k x p Hs).
Qed.

Example C01_premises_hold : exists s, bloom_new_params 10 3 = Ok s.
Proof. eexists; reflexivity. Qed.

(* Redis-backed variant, on the Redis model itself (SETBIT / GETBIT on a string that grows on
   demand, most significant bit first): for every position function, every store, every handle
   whose bitset exists and every history of inserts before and after, the element is found *)
Theorem C01_redis_no_false_negative : forall bpos s h xs1 x xs2, rb_nil h = false ->
  rbloom_lookup bpos (rbrun bpos (snd (rbloom_insert bpos (rbrun bpos s h xs1) h x)) h xs2) h x = Ok true.
Proof. exact redis_no_false_negative. Qed.

Print Assumptions C01_mem_no_false_negative.
Print Assumptions C01_mem_empty_all_absent.
Print Assumptions C01_ctor_clamps.
Print Assumptions C01_from_bitset_clamps.
Print Assumptions C01_code_probes_nonempty_in_range.
Print Assumptions C01_redis_no_false_negative.

(* Redis: a new filter (fresh keys) reports every element absent -- its Lookup is the in-memory
   Lookup (refinement), which is false on the empty filter whenever there is at least one probe *)
From GX.Proofs Require RedisBloomRefine.
Theorem C01_redis_empty_all_absent : forall bpos s size0 k0 key meta h s' f x,
  rbloom_new s size0 k0 key meta = (Ok h, s') -> bloom_new_params size0 k0 = Ok f -> meta <> key ->
  bpos (b_size f) (b_k f) x <> [] ->
  rbloom_lookup bpos s' h x = Ok false.
Proof.
  intros bpos s size0 k0 key meta h s' f x Hn Hf Hk Hp.
  rewrite (RedisBloomRefine.bloom_lookup_refines bpos s' h f x (RedisBloomRefine.bloom_new_refines s size0 k0 key meta h s' f Hn Hf Hk)).
  f_equal. exact (empty_all_absent bpos size0 k0 f x Hf Hp).
Qed.
Print Assumptions C01_redis_empty_all_absent.
