(* C13 — Cuckoo filter deletion and length accounting. Statements only. *)
From GX.Model Require Import Base Murmur Cuckoo.
From GX.Model Require Import Redis RedisCMS RedisCuckoo.
From GX.Proofs Require Import ListLemmas CuckooProofs CuckooInv RedisCuckooInv.
From GX.Proofs Require Import NonVacuity.
From Coq Require Import ZArith.
Open Scope N_scope.

(* Length moves by exactly +1 on every Insert that returns, and not at all on any failed
   insert (full filter, destructive or not, or a runtime panic); for every hash, configuration,
   state and random choices *)
Theorem C13_insert_length : forall h64 f x destr coin draws,
  match ck_insert h64 f x destr coin draws with
  | InsOk f' => q_len f' = wrap64 (q_len f + 1)
  | InsFull f' => q_len f' = q_len f
  | InsPanic _ f' => q_len f' = q_len f
  end.
Proof. exact insert_len. Qed.

(* removing an element that Lookup reports absent returns false and changes nothing; removing
   one that Lookup reports present returns true *)
Theorem C13_remove_iff_lookup : forall h64 f x,
  match ck_lookup h64 f x, ck_remove h64 f x with
  | Ok l, Ok (r, f') => l = r /\ (r = false -> f' = f)
  | Panic t, Panic t' => t = t'
  | Err t, Err t' => t = t'
  | _, _ => False
  end.
Proof. exact remove_iff_lookup. Qed.

(* THE INVARIANT, for every configuration whose capacity fits in 64 bits, every hash, every history
   of Insert/Remove (any flags, any random choices, failed inserts and panics included) on elements
   that get a non-empty fingerprint: after the history
     - Length = (inserts that returned) - (removes that returned true),
     - Length = number of stored entries (occupied slots over all buckets),
     - every bucket has exactly bucketSize slots and never more entries than that,
     - if Length is back to 0 the filter IS a new filter (same parameters, all slots empty),
       so every lookup is false.
   (fp_ok is the regime in which the empty-fingerprint defect below does not apply.) *)
Theorem C13_length_accounting : forall h64 size bsize fpl retries ops,
  size * bsize < two64 ->
  Forall (fun o => fp_ok h64 fpl (cop_elem o) = true) ops ->
  let r := crun h64 (ck_new size bsize fpl retries) ops in
  Z.of_N (q_len (fst r)) = snd r /\
  q_len (fst r) = N.of_nat (stored (fst r)) /\
  Forall (fun b => (occ (k_slots b) <= length (k_slots b))%nat /\
                   length (k_slots b) = N.to_nat bsize /\ k_len b <= bsize) (q_buckets (fst r)) /\
  (q_len (fst r) = 0 -> fst r = ck_new size bsize fpl retries).
Proof. exact reach_accounting. Qed.

(* the same invariant is inductive from ANY state satisfying it (not only from a new filter) *)
Theorem C13_invariant_inductive : forall h64 ops f,
  ck_inv f -> Forall (fun o => fp_ok h64 (q_fpl f) (cop_elem o) = true) ops ->
  ck_inv (fst (crun h64 f ops)) /\ params (fst (crun h64 f ops)) = params f /\
  Z.of_N (q_len (fst (crun h64 f ops))) = (Z.of_N (q_len f) + snd (crun h64 f ops))%Z.
Proof. exact crun_inv. Qed.

(* a Remove that returns true takes exactly one stored entry away *)
Theorem C13_remove_takes_one_entry : forall h64 f x f',
  ck_inv f -> fp_ok h64 (q_fpl f) x = true -> ck_remove h64 f x = Ok (true, f') ->
  ck_inv f' /\ S (stored f') = stored f.
Proof. exact remove_one_entry. Qed.

(* non-vacuity: a concrete history on the murmur3 model meets the hypotheses: it fills a 4x1
   filter, fails three inserts (two non-destructive, one destructive), removes two elements,
   fails to remove the one the destructive insert displaced, and inserts again; the per-step
   accounting is +1 +1 +1 +1 0 0 0 -1 -1 0 +1 and Length ends at 3 *)
Definition c13_ops : list cop :=
  [CIns [97] false true []; CIns [98] false true []; CIns [99] false false [0];
   CIns [100] false true [0; 0]; CIns [101] false true [0; 0; 0]; CIns [102] false true [0; 0; 0];
   CIns [103] true true [0; 0; 0]; CRem [97]; CRem [98]; CRem [99]; CIns [97] true true [1; 1; 1]].
Fixpoint c13_deltas (f : cuckoo) (ops : list cop) : list Z :=
  match ops with [] => [] | o :: t => cdelta murmur64 f o :: c13_deltas (cstep murmur64 f o) t end.
Example C13_hypotheses_satisfiable :
  4 * 1 < two64 /\ forallb (fun o => fp_ok murmur64 2 (cop_elem o)) c13_ops = true /\
  c13_deltas (ck_new 4 1 2 3) c13_ops = [1; 1; 1; 1; 0; 0; 0; -1; -1; 0; 1]%Z /\
  q_len (fst (crun murmur64 (ck_new 4 1 2 3) c13_ops)) = 3.
Proof. vm_compute. repeat split; congruence. Qed.

(* ---------- Redis-backed variant, on the Redis model itself ----------
   Bucket i is the Redis list cuckoo_<key>_bucket_<i> with its counter <bucket>_len; the filter's
   Length is the "length" field of the metadata hash. The metadata key is different from the
   bucket and counter keys (16 random letters vs. the longer derived names). RI s: every bucket's
   counter equals the number of non-empty entries of its list, no list is longer than bucketSize,
   and the length field equals the total number of stored entries. *)
Section Redis.
Variable key meta : bytes.
Variable size bsize fpl retries : N.
Variable h64 : bytes -> N.
Hypothesis meta_not_bucket : forall i, meta <> bucket_key key i.
Hypothesis meta_not_len : forall i, meta <> len_key (bucket_key key i).
Hypothesis bsize_pos : 1 <= bsize.
Hypothesis bsize_small : bsize < 2 ^ 62.
Hypothesis size_pos : 0 < size.

(* RI is invariant along every history of Insert / Remove (any flags, draws in Float64's range)
   on elements with a non-empty fingerprint, and the number of stored entries moves by
   (inserts that returned) - (removes that returned true) *)
Theorem C13_redis_invariant : forall ops s,
  RI key meta size bsize s ->
  Forall (fun o => fp_ok h64 fpl (rop_elem o) = true /\ Forall (fun k => k < 2 ^ 53) (rop_draws o)) ops ->
  RI key meta size bsize (fst (rrun_ops key meta size bsize fpl retries h64 s ops)) /\
  (Z.of_nat (tot key size (fst (rrun_ops key meta size bsize fpl retries h64 s ops))) =
   Z.of_nat (tot key size s) + snd (rrun_ops key meta size bsize fpl retries h64 s ops))%Z.
Proof. exact (rrun_RI key meta size bsize meta_not_bucket meta_not_len bsize_pos bsize_small fpl retries h64 size_pos). Qed.

(* Length() is the number of stored entries *)
Theorem C13_redis_length : forall s, size * bsize < two64 -> RI key meta size bsize s ->
  rck_length s (hdl key meta size bsize fpl retries) = N.of_nat (tot key size s).
Proof. exact (length_is_tot key meta size bsize meta_not_bucket meta_not_len bsize_pos bsize_small fpl retries h64). Qed.

(* a new filter whose keys are fresh satisfies RI with no entries *)
Theorem C13_redis_new : forall s, meta <> key ->
  (forall i, i < size -> sget s (bucket_key key i) = None /\ sget s (len_key (bucket_key key i)) = None) ->
  RI key meta size bsize (snd (rck_new s size bsize fpl retries key meta)) /\
  tot key size (snd (rck_new s size bsize fpl retries key meta)) = 0%nat.
Proof. exact (rck_new_RI key meta size bsize meta_not_bucket meta_not_len bsize_pos bsize_small fpl retries h64 size_pos). Qed.
End Redis.

(* REFUTED for elements with an empty fingerprint: Length counts an element that is not stored *)
Theorem C13_refuted_empty_fingerprint : exists f,
  ck_insert murmur64 (ck_new 4 1 25 3) [255; 254; 24] false true [] = InsOk f /\
  q_len f = 1 /\ Forall (fun b => k_len b = 0) (q_buckets f).
Proof. eexists. split; [vm_compute; reflexivity|]. split; [reflexivity|]. repeat constructor. Qed.

Example C13_redis_premises_hold : exists s, RI k_a k_m 4 2 s /\ tot k_a 4 s = 0%nat.
Proof. exact RI_inhabited. Qed.

Print Assumptions C13_insert_length.
Print Assumptions C13_remove_iff_lookup.
Print Assumptions C13_refuted_empty_fingerprint.
Print Assumptions C13_length_accounting.
Print Assumptions C13_invariant_inductive.
Print Assumptions C13_remove_takes_one_entry.
Print Assumptions C13_redis_invariant.
Print Assumptions C13_redis_length.
Print Assumptions C13_redis_new.

(* Redis: Remove answers what Lookup answers, and a Remove that answers false leaves the store
   untouched (every hash, every handle, every store) *)
From GX.Proofs Require RedisExtras.
Theorem C13_redis_remove_iff_lookup : forall h64 s h x,
  match rck_lookup h64 s h x, rck_remove h64 s h x with
  | Ok l, (Ok r, s') => l = r /\ (r = false -> s' = s)
  | Panic t, (Panic t', s') => t = t' /\ s' = s
  | Err t, (Err t', s') => t = t' /\ s' = s
  | _, _ => False
  end.
Proof. exact RedisExtras.rck_remove_iff_lookup. Qed.
Print Assumptions C13_redis_remove_iff_lookup.
(* Redis: a consistent filter that holds no entry (Length back to 0) reports every element absent *)
Theorem C13_redis_empty_all_absent : forall key meta size bsize fpl retries h64 s x fp i1 i2,
  buckets_ok key size bsize s -> tot key size s = 0%nat ->
  rck_positions h64 (hdl key meta size bsize fpl retries) x = Ok (fp, i1, i2) ->
  fp <> [] -> i1 < size -> i2 < size -> 0 < size ->
  rck_lookup h64 s (hdl key meta size bsize fpl retries) x = Ok false.
Proof. exact RedisExtras.rck_empty_all_absent. Qed.
Print Assumptions C13_redis_empty_all_absent.
