(* C13 — Cuckoo filter deletion and length accounting. Statements only. *)
From GX.Model Require Import Base Murmur Cuckoo.
From GX.Proofs Require Import ListLemmas CuckooProofs.

(* Length moves by exactly +1 on every Insert that returns, and not at all on any failed
   insert (full filter, destructive or not, or a runtime panic); for every hash, configuration,
   state and random choices *)
Theorem C13_insert_length : forall h64 f x destr coin draws,
  match ck_insert h64 f x destr coin draws with
  | InsOk f' => q_len f' = wrap64 (q_len f + 1)
  | InsFull f' => q_len f' = q_len f
  | InsPanic _ f' => q_len f' = q_len f
  end.
Proof. exact insert_len. Qed.

(* removing an element that Lookup reports absent returns false and changes nothing; removing
   one that Lookup reports present returns true *)
Theorem C13_remove_iff_lookup : forall h64 f x,
  match ck_lookup h64 f x, ck_remove h64 f x with
  | Ok l, Ok (r, f') => l = r /\ (r = false -> f' = f)
  | Panic t, Panic t' => t = t'
  | Err t, Err t' => t = t'
  | _, _ => False
  end.
Proof. exact remove_iff_lookup. Qed.

(* REFUTED for elements with an empty fingerprint: Length counts an element that is not stored *)
Theorem C13_refuted_empty_fingerprint : exists f,
  ck_insert murmur64 (ck_new 4 1 25 3) [255; 254; 24] false true [] = InsOk f /\
  q_len f = 1 /\ Forall (fun b => k_len b = 0) (q_buckets f).
Proof. eexists. split; [vm_compute; reflexivity|]. split; [reflexivity|]. repeat constructor. Qed.

Print Assumptions C13_insert_length.
Print Assumptions C13_remove_iff_lookup.
Print Assumptions C13_refuted_empty_fingerprint.
