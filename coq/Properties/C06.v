(* C06 — HyperLogLog is duplicate- and order-insensitive; merge equals union. Statements only.
   In-memory variant, after the repair recorded in known-findings.txt (fixed: C06 ... Update
   truncates the rank before the maximum): the full statement is proved, for every
   index/rank function (hence every hash), every register count, every history. *)
From GX.Model Require Import Base HLL.
From GX.Model Require Import Redis RedisHLL.
From GX.Proofs Require Import ListLemmas HLLProofs HLLApi RedisHLLRefine.
From GX.Proofs Require Import NonVacuity.

Section Mem.
Variable hic : N -> bytes -> N * N.

(* the whole state (registers and parameters) depends only on the set of inserted elements:
   any permutation, any duplication of an insertion sequence gives the same sketch *)
Theorem C06_mem_state_depends_on_set_only : forall s xs ys s1 s2,
  hwf s -> (forall x, In x xs <-> In x ys) ->
  upd_all hic s xs = Ok s1 -> upd_all hic s ys = Ok s2 -> s1 = s2.
Proof. exact (set_dependence hic). Qed.

(* merging the sketches of two streams yields exactly the sketch that received both *)
Theorem C06_mem_merge_is_union : forall m al s0 xs ys a b u mm,
  hll_new m al = Ok s0 -> upd_all hic s0 xs = Ok a -> upd_all hic s0 ys = Ok b ->
  upd_all hic s0 (xs ++ ys) = Ok u -> hll_merge a b = Ok mm -> mm = u.
Proof. exact (merge_is_union hic). Qed.

(* later updates of a merged sketch behave as on that single sketch *)
Theorem C06_mem_merge_then_update : forall m al s0 xs ys zs a b mm r1 r2,
  hll_new m al = Ok s0 -> upd_all hic s0 xs = Ok a -> upd_all hic s0 ys = Ok b ->
  hll_merge a b = Ok mm -> upd_all hic mm zs = Ok r1 ->
  upd_all hic s0 ((xs ++ ys) ++ zs) = Ok r2 -> r1 = r2.
Proof. exact (merge_then_update hic). Qed.

Theorem C06_mem_immediate_reinsert_idem : forall s x s1 s2,
  hwf s -> hll_update hic s x = Ok s1 -> hll_update hic s1 x = Ok s2 -> s2 = s1.
Proof. exact (reinsert_idem hic). Qed.
End Mem.

(* merge is commutative and idempotent *)
Theorem C06_mem_merge_comm : forall a b m1 m2,
  hwf a -> hwf b -> h_m a = h_m b -> hll_merge a b = Ok m1 -> hll_merge b a = Ok m2 ->
  h_regs m1 = h_regs m2.
Proof. exact merge_comm. Qed.
Theorem C06_mem_merge_idem : forall a b m1 m2,
  hwf a -> hwf b -> h_m a = h_m b -> hll_merge a b = Ok m1 -> hll_merge m1 b = Ok m2 -> m2 = m1.
Proof. exact merge_idem. Qed.

(* different register counts are rejected; the model returns the new receiver as a value, so an
   Err leaves both operands as they were (the runner keeps the old states) *)
Theorem C06_merge_mismatch_rejected : forall a b, h_m a <> h_m b -> hll_merge a b = Err E_MISMATCH.
Proof. exact merge_mismatch. Qed.

(* the hypotheses are met along every history: constructor and updates keep hwf *)
Theorem C06_reachable_wf : forall m al s, hll_new m al = Ok s -> hwf s /\ h_m s = m /\ h_p s = N.log2 m.
Proof. exact new_wf. Qed.

(* regression witness of the repaired defect: with the old update rule
   uint8(max(old, count)) the two hash values below (same register, ranks 2^15+200 and
   2^15+256) gave order-dependent registers; with the modelled rule they do not *)
Definition w_hash (x : bytes) : N :=
  match x with [1] => 2 ^ 40 + 200 * 2 ^ 25 | _ => 2 ^ 40 + 256 * 2 ^ 25 end.
Definition regs_of (o : outcome hll) : list N := match o with Ok s => h_regs s | _ => [] end.
Example C06_witness_now_order_independent : exists s,
  hll_new 128 0 = Ok s /\
  regs_of (upd_all (hic_of w_hash) s [[1]; [2]]) = regs_of (upd_all (hic_of w_hash) s [[2]; [1]]) /\
  nth 17 (regs_of (upd_all (hic_of w_hash) s [[1]; [2]])) 0 = 200.
Proof. eexists; split; [reflexivity|]. vm_compute. split; reflexivity. Qed.

(* Redis-backed variant, through the register refinement of Proofs/RedisHLLRefine.v: while the
   Redis list holds the decimal strings of the in-memory registers (hrefines), the update script
   and the merge script lead to the list that represents the registers after the in-memory Update
   / Merge - so the Redis register state depends only on the set of elements inserted, and merge
   is the sketch of the union, exactly as proved above for the in-memory variant. (An index past
   the registers is a panic in memory and a script error in Redis: the m <= 64 finding of C05.) *)
Theorem C06_redis_update_refines : forall hic s h mh x,
  hrefines s h mh -> fst (hic (h_p mh) x) < 256 ->
  match hll_update hic mh x with
  | Ok mh' => exists s', rhll_update hic s h x = (Ok tt, s') /\ hrefines s' h mh'
  | Panic _ => rhll_update hic s h x = (Err E_GENERIC, s)
  | Err _ => False
  end.
Proof. exact hll_update_refines. Qed.

Theorem C06_redis_merge_refines : forall s a b ma mb,
  hrefines s a ma -> hrefines s b mb -> rh_key a <> rh_key b -> h_m ma = h_m mb ->
  exists s' m, hll_merge ma mb = Ok m /\ rhll_merge s a b = (Ok tt, s') /\
               hrefines s' a m /\ hrefines s' b mb.
Proof. exact hll_merge_refines. Qed.

Example C06_redis_premises_hold : exists s h mh, hrefines s h mh /\ h_regs mh = [0; 3; 1; 0].
Proof. exact hrefines_inhabited. Qed.

Print Assumptions C06_mem_state_depends_on_set_only.
Print Assumptions C06_mem_merge_is_union.
Print Assumptions C06_mem_merge_then_update.
Print Assumptions C06_mem_immediate_reinsert_idem.
Print Assumptions C06_mem_merge_comm.
Print Assumptions C06_mem_merge_idem.
Print Assumptions C06_merge_mismatch_rejected.
Print Assumptions C06_reachable_wf.
Print Assumptions C06_redis_update_refines.
Print Assumptions C06_redis_merge_refines.

(* Redis: sketches with different register counts are rejected and the store is left as it was *)
From GX.Proofs Require RedisExtras.
Theorem C06_redis_merge_mismatch_rejected : forall s a b,
  rh_m a <> rh_m b -> rhll_merge s a b = (Err E_MISMATCH, s).
Proof. exact RedisExtras.rhll_merge_mismatch. Qed.
Print Assumptions C06_redis_merge_mismatch_rejected.

(* Redis, whole histories: the Redis-backed sketch keeps representing the in-memory sketch that
   received the same updates, and so its stored register list depends only on the SET of elements
   inserted -- duplicates and order do not matter (for every hash; the updates succeed whenever the
   sketch has at least 128 registers, C05) *)
From GX.Proofs Require HLLApi RedisHLLHistory.
Theorem C06_redis_history_refines : forall hash xs s h mh mh',
  hrefines s h mh -> HLLApi.upd_all (hic_of hash) mh xs = Ok mh' ->
  exists s', RedisHLLHistory.rupd_all (hic_of hash) s h xs = (Ok tt, s') /\ hrefines s' h mh'.
Proof.
  intros hash xs s h mh mh' HR Hrun.
  apply (RedisHLLHistory.rupd_all_refines (hic_of hash) xs s h mh mh' HR); [|exact Hrun].
  intros p x. unfold hic_of. pose proof (index_le_65 p (hash x)). apply N.le_lt_trans with 65; [assumption|reflexivity].
Qed.
Print Assumptions C06_redis_history_refines.
Theorem C06_redis_state_depends_on_set_only : forall hash s h mh xs ys m1 m2,
  hrefines s h mh -> (forall x, In x xs <-> In x ys) ->
  HLLApi.upd_all (hic_of hash) mh xs = Ok m1 -> HLLApi.upd_all (hic_of hash) mh ys = Ok m2 ->
  exists s1 s2, RedisHLLHistory.rupd_all (hic_of hash) s h xs = (Ok tt, s1) /\
                RedisHLLHistory.rupd_all (hic_of hash) s h ys = (Ok tt, s2) /\
                r_list s1 (rh_key h) = r_list s2 (rh_key h).
Proof.
  intros hash s h mh xs ys m1 m2 HR Hset H1 H2.
  apply (RedisHLLHistory.redis_state_depends_on_set_only (hic_of hash) s h mh xs ys m1 m2 HR); try assumption.
  intros p x. unfold hic_of. pose proof (index_le_65 p (hash x)). apply N.le_lt_trans with 65; [assumption|reflexivity].
Qed.
Print Assumptions C06_redis_state_depends_on_set_only.

(* Redis, end to end: two Redis-backed sketches representing the in-memory sketches of two streams;
   after Merge the receiver represents the sketch of the concatenated stream (the union) and the
   argument still represents its own stream *)
Theorem C06_redis_merge_is_union : forall (hic : N -> bytes -> N * N) m al s0 xs ys ma mb u s a b,
  hll_new m al = Ok s0 -> HLLApi.upd_all hic s0 xs = Ok ma -> HLLApi.upd_all hic s0 ys = Ok mb ->
  HLLApi.upd_all hic s0 (xs ++ ys) = Ok u ->
  hrefines s a ma -> hrefines s b mb -> rh_key a <> rh_key b ->
  exists s', rhll_merge s a b = (Ok tt, s') /\ hrefines s' a u /\ hrefines s' b mb.
Proof. exact RedisHLLHistory.redis_merge_is_union. Qed.
Print Assumptions C06_redis_merge_is_union.

(* non-vacuity of the end-to-end theorem: two Redis sketches in one store representing the sketches
   of two one-element streams that hit different registers; the union holds both *)
From GX.Proofs Require Import NonVacuity.
From Coq Require Import Lia.
Example C06_redis_union_premises_hold :
  let hic := fun (_ : N) (x : bytes) => (1 + N.of_nat (length x), 3) in
  exists s0 ma mb u s a b,
    hll_new 4 0 = Ok s0 /\ HLLApi.upd_all hic s0 [[7]] = Ok ma /\ HLLApi.upd_all hic s0 [[8; 9]] = Ok mb /\
    HLLApi.upd_all hic s0 ([[7]] ++ [[8; 9]]) = Ok u /\
    hrefines s a ma /\ hrefines s b mb /\ rh_key a <> rh_key b /\ h_regs u = [0; 0; 3; 3].
Proof.
  cbv zeta.
  eexists _, _, _, _, [(k_a, VList (map dec [0; 0; 3; 0])); (k_b, VList (map dec [0; 0; 0; 3]))],
          (mkRhll 4 2 0 k_a k_m), (mkRhll 4 2 0 k_b k_n).
  split; [reflexivity|]. split; [vm_compute; reflexivity|]. split; [vm_compute; reflexivity|]. split; [vm_compute; reflexivity|].
  split; [|split; [|split; [vm_compute; discriminate|reflexivity]]].
  - split; [reflexivity|]. split; [reflexivity|]. split; [|reflexivity]. split; [reflexivity|]. repeat constructor.
  - split; [reflexivity|]. split; [reflexivity|]. split; [|reflexivity]. split; [reflexivity|]. repeat constructor.
Qed.
