(* C08 — Redis-backed and in-memory variants answer identically. Statements only.
   Full statement: for every structure, equal construction parameters and equal operation
   histories give equal answers (Top-K up to ties at the smallest reported count, cuckoo until
   the first relocation).
   How it is decided here: each variant has its own executable model, tied to its own
   implementation by correspondence (machines 1-10), both models are parametric in the SAME
   position / fingerprint / rank functions, and the two implementations are run in lock-step on
   common histories with their answers compared (pair suites). The refinement theorems that
   would derive model_mem = model_redis outright are PARTIAL: proved below are the shared
   pieces the agreement rests on; the store-level refinements are not yet proved. *)
From GX.Model Require Import Base HLL Cuckoo Heap TopK Redis RedisCMS RedisHLL RedisCuckoo RedisTopK.
From GX.Proofs Require Import ListLemmas HLLProofs.
From Coq Require Import Lia ZifyN ZifyBool.

(* HyperLogLog: the Redis update rule (keep the larger of the stored value and uint8(count)) and
   the in-memory rule (uint8(max(old, uint8(count)))) compute the same register value *)
Theorem C08_hll_same_register_rule : forall old c,
  old < 256 -> (if old <? wrap8 c then wrap8 c else old) = wrap8 (N.max old (wrap8 c)).
Proof.
  intros old c Ho. pose proof (wrap8_lt c) as Hc.
  rewrite (wrap8_small (N.max old (wrap8 c))) by lia.
  destruct (N.ltb_spec old (wrap8 c)); lia.
Qed.

(* cuckoo: both variants derive fingerprint and candidate buckets with the same function *)
Theorem C08_cuckoo_same_positions : forall h64 size bsize fpl retries key meta x len bks,
  rck_positions h64 (mkRck size bsize fpl retries key meta) x =
  ck_positions h64 (mkCuckoo size bsize fpl retries len bks) x.
Proof. reflexivity. Qed.

(* Top-K: both variants order Values() with the same comparison *)
Theorem C08_topk_same_order : forall s t, rtopk_values s t = sort_entries (rev (r_zset s (rt_heap t))).
Proof. reflexivity. Qed.

(* Lua arithmetic on the counters is exact below 2^53 (so the Redis Count-Min cells equal the
   uint64 cells there) *)
Theorem C08_round53_exact : forall x, x < 2 ^ 53 -> round53 x = x.
Proof.
  intros x Hx. unfold round53.
  assert (N.size x <= 53).
  { destruct x as [|p]; [cbn; lia|]. rewrite N.size_log2 by discriminate.
    assert (N.log2 (N.pos p) < 53) by (apply N.log2_lt_pow2; lia). lia. }
  destruct (N.leb_spec (N.size x) 53); [reflexivity|lia].
Qed.

Print Assumptions C08_hll_same_register_rule.
Print Assumptions C08_cuckoo_same_positions.
Print Assumptions C08_topk_same_order.
Print Assumptions C08_round53_exact.
