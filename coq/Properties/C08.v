(* C08 — Redis-backed and in-memory variants answer identically. Statements only.
   Full statement: for every structure, equal construction parameters and equal operation
   histories give equal answers (Top-K up to ties at the smallest reported count, cuckoo until
   the first relocation).
   How it is decided here: each variant has its own executable model, tied to its own
   implementation by correspondence (machines 1-10), both models are parametric in the SAME
   position / fingerprint / rank functions, and the two implementations are run in lock-step on
   common histories with their answers compared (pair suites). Proved outright: for
   Count-Min the Redis model REFINES the memory model (constructor, Update, Count, every history
   below 2^53); for HyperLogLog the update / merge / harmonic-sum scripts refine the register
   operations; for Bloom the SETBIT/GETBIT string and the extending bitset hold the same bits
   after the same inserts, so every Lookup answers alike on every history
   (C08_bloom_same_answers_on_every_history). For the cuckoo filter the two variants lay their
   slots out differently (first empty slot / reused position or head of the Redis list), so the
   refinement relation is "corresponding buckets hold the same multiset of fingerprints"; under
   it, on EVERY history of Insert and Remove in which no insert has to relocate a stored
   fingerprint, both variants return from every Insert, answer every Remove alike, and at every
   point answer every Lookup alike and report the same Length
   (C08_cuckoo_same_answers_until_relocation, C08_cuckoo_lookup_and_length, C08_cuckoo_new).
   For Top-K the two variants order ties differently by design: both are proved to satisfy the
   same invariants (C04) and share the comparison below. *)
From GX.Model Require Import Base CMS Bloom HLL Cuckoo Heap TopK Redis RedisCMS RedisHLL RedisBloom RedisCuckoo RedisTopK.
From GX.Proofs Require Import ListLemmas HLLProofs CMSProofs RedisCMSRefine RedisHLLRefine RedisBloomRefine.
From GX.Proofs Require Import NonVacuity.
From Coq Require Import Lia ZifyN ZifyBool.

(* HyperLogLog: the Redis update rule (keep the larger of the stored value and uint8(count)) and
   the in-memory rule (uint8(max(old, uint8(count)))) compute the same register value *)
Theorem C08_hll_same_register_rule : forall old c,
  old < 256 -> (if old <? wrap8 c then wrap8 c else old) = wrap8 (N.max old (wrap8 c)).
Proof.
  intros old c Ho. pose proof (wrap8_lt c) as Hc.
  rewrite (wrap8_small (N.max old (wrap8 c))) by lia.
  destruct (N.ltb_spec old (wrap8 c)); lia.
Qed.

(* cuckoo: both variants derive fingerprint and candidate buckets with the same function *)
Theorem C08_cuckoo_same_positions : forall h64 size bsize fpl retries key meta x len bks,
  rck_positions h64 (mkRck size bsize fpl retries key meta) x =
  ck_positions h64 (mkCuckoo size bsize fpl retries len bks) x.
Proof. reflexivity. Qed.

(* Top-K: both variants order Values() with the same comparison *)
Theorem C08_topk_same_order : forall s t, rtopk_values s t = sort_entries (rev (r_zset s (rt_heap t))).
Proof. reflexivity. Qed.

(* Lua arithmetic on the counters is exact below 2^53 (so the Redis Count-Min cells equal the
   uint64 cells there) *)
Theorem C08_round53_exact : forall x, x < 2 ^ 53 -> round53 x = x.
Proof.
  intros x Hx. unfold round53.
  assert (N.size x <= 53).
  { destruct x as [|p]; [cbn; lia|]. rewrite N.size_log2 by discriminate.
    assert (N.log2 (N.pos p) < 53) by (apply N.log2_lt_pow2; lia). lia. }
  destruct (N.leb_spec (N.size x) 53); [reflexivity|lia].
Qed.

(* Count-Min: the Redis variant REFINES the in-memory one. If the row lists of the store hold the
   decimal strings of the matrix rows (refines), then Update leads to the store representing the
   updated matrix and Count returns the in-memory estimate, for counters below 2^53; the
   constructor establishes the relation. So on every common history below 2^53 the two variants
   answer identically. *)
Section CMSRefinement.
Variable cpos : N -> N -> bytes -> list N.
Variable rows cols : N.
Hypothesis cpos_len : forall x, length (cpos rows cols x) = N.to_nat rows.
Hypothesis cpos_lt : forall x p, In p (cpos rows cols x) -> p < cols.
Hypothesis cols_pos : 0 < cols.

Theorem C08_cms_new_refines : forall s key meta h s' m,
  rcms_new s rows cols key meta = (Ok h, s') -> cms_new rows cols = Ok m -> refines rows cols s' h m.
Proof. exact (new_refines cpos rows cols cpos_len cpos_lt cols_pos). Qed.

Theorem C08_cms_update_refines : forall s h m x count,
  refines rows cols s h m -> count < B53 -> cells_below rows cols m (B53 - count) ->
  exists s', rcms_update cpos s h x count =
               (Ok (mkRcms (rc_rows h) (rc_cols h) (wrap64 (rc_allsum h + count)) (rc_key h) (rc_meta h)), s') /\
             refines rows cols s'
               (mkRcms (rc_rows h) (rc_cols h) (wrap64 (rc_allsum h + count)) (rc_key h) (rc_meta h))
               (cms_update cpos m x count).
Proof. exact (update_refines cpos rows cols cpos_len cpos_lt cols_pos). Qed.

Theorem C08_cms_count_refines : forall s h m x,
  refines rows cols s h m -> 0 < rows -> cells_below rows cols m B53 ->
  rcms_count cpos s h x = Ok (cms_count cpos m x).
Proof. exact (count_refines cpos rows cols cpos_len cpos_lt cols_pos). Qed.

Theorem C08_cms_same_answers_on_every_history : forall hist s h m done,
  refines rows cols s h m -> repr cpos rows cols m done -> total (done ++ hist) < B53 ->
  exists s' h', rrun cpos s h hist = (Ok h', s') /\ refines rows cols s' h' (run_hist cpos m hist) /\
                repr cpos rows cols (run_hist cpos m hist) (done ++ hist).
Proof. exact (history_refines cpos rows cols cpos_len cpos_lt cols_pos). Qed.
End CMSRefinement.

(* HyperLogLog: the Redis variant refines the in-memory one on its registers (update, merge) and
   both estimators start from the same harmonic sum *)
Theorem C08_hll_update_refines : forall hic s h mh x,
  hrefines s h mh -> fst (hic (h_p mh) x) < 256 ->
  match hll_update hic mh x with
  | Ok mh' => exists s', rhll_update hic s h x = (Ok tt, s') /\ hrefines s' h mh'
  | Panic _ => rhll_update hic s h x = (Err E_GENERIC, s)
  | Err _ => False
  end.
Proof. exact hll_update_refines. Qed.
Theorem C08_hll_merge_refines : forall s a b ma mb,
  hrefines s a ma -> hrefines s b mb -> rh_key a <> rh_key b -> h_m ma = h_m mb ->
  exists s' m, hll_merge ma mb = Ok m /\ rhll_merge s a b = (Ok tt, s') /\ hrefines s' a m /\ hrefines s' b mb.
Proof. exact hll_merge_refines. Qed.
Theorem C08_hll_same_harmonic_sum : forall s h mh, hrefines s h mh -> rhll_hmean_num s h = Some (hll_hsum_num mh).
Proof. exact hll_hsum_refines. Qed.

(* Bloom: same bits after the same inserts, same answers to every Lookup *)
Theorem C08_bloom_new_refines : forall s size0 k0 key meta h s' f,
  rbloom_new s size0 k0 key meta = (Ok h, s') -> bloom_new_params size0 k0 = Ok f -> meta <> key ->
  brefines s' h f.
Proof. exact bloom_new_refines. Qed.
Theorem C08_bloom_insert_refines : forall bpos s h f x, brefines s h f ->
  fst (rbloom_insert bpos s h x) = Ok tt /\
  brefines (snd (rbloom_insert bpos s h x)) h (bloom_insert bpos f x).
Proof. exact bloom_insert_refines. Qed.
Theorem C08_bloom_lookup_refines : forall bpos s h f x, brefines s h f ->
  rbloom_lookup bpos s h x = Ok (bloom_lookup bpos f x).
Proof. exact bloom_lookup_refines. Qed.
Theorem C08_bloom_same_answers_on_every_history : forall bpos s h f xs x, brefines s h f ->
  rbloom_lookup bpos (rbrun' bpos s h xs) h x = Ok (bloom_lookup bpos (mbrun bpos f xs) x).
Proof. exact redis_and_memory_bloom_agree. Qed.

Example C08_bloom_premises_hold : exists s h f, brefines s h f /\ b_size f = 10.
Proof. exact brefines_inhabited. Qed.

Print Assumptions C08_hll_same_register_rule.
Print Assumptions C08_cuckoo_same_positions.
Print Assumptions C08_topk_same_order.
Print Assumptions C08_round53_exact.
Print Assumptions C08_cms_update_refines.
Print Assumptions C08_cms_count_refines.
Print Assumptions C08_cms_same_answers_on_every_history.
Print Assumptions C08_hll_update_refines.
Print Assumptions C08_hll_same_harmonic_sum.
Print Assumptions C08_bloom_same_answers_on_every_history.

(* ---------- cuckoo: same answers until the first relocation ---------- *)
From GX.Proofs Require Import CuckooInv RedisCuckooInv CuckooRefine.
Section CuckooPair.
Variable key meta : bytes.
Variable size bsize fpl retries : N.
Hypothesis meta_not_bucket : forall i, meta <> bucket_key key i.
Hypothesis meta_not_len : forall i, meta <> len_key (bucket_key key i).
Hypothesis bsize_pos : 1 <= bsize.
Hypothesis bsize_small : bsize < 2 ^ 62.
Hypothesis size_pos : 0 < size.
Variable h64 : bytes -> N.

(* new filters with the same parameters are related (fresh Redis keys) *)
Theorem C08_cuckoo_new : forall s0, size * bsize < two64 -> meta <> key ->
  (forall i, i < size -> sget s0 (bucket_key key i) = None /\ sget s0 (len_key (bucket_key key i)) = None) ->
  CR key meta size bsize fpl retries (ck_new size bsize fpl retries) (snd (rck_new s0 size bsize fpl retries key meta)).
Proof. exact (cuckoo_new_refines key meta size bsize fpl retries meta_not_bucket meta_not_len bsize_pos bsize_small size_pos h64). Qed.

(* every history of Insert / Remove (elements with non-empty fingerprints, as in C02 / C13) in which
   each Insert finds room in one of its two candidate buckets: the per-call answers are the same
   list, and the two filters stay related *)
Theorem C08_cuckoo_same_answers_until_relocation : forall ops f s,
  CR key meta size bsize fpl retries f s -> Forall (op_ok fpl h64) ops -> no_reloc_run h64 f ops ->
  ctrace h64 f ops = rtrace key meta size bsize fpl retries h64 s (map to_rop ops) /\
  CR key meta size bsize fpl retries (fst (crun h64 f ops))
     (fst (rrun_ops key meta size bsize fpl retries h64 s (map to_rop ops))).
Proof. exact (cuckoo_history_refines key meta size bsize fpl retries meta_not_bucket meta_not_len bsize_pos bsize_small size_pos h64). Qed.

(* related filters answer every Lookup alike and report the same Length *)
Theorem C08_cuckoo_lookup_and_length : forall f s x,
  CR key meta size bsize fpl retries f s -> fp_ok h64 fpl x = true ->
  ck_lookup h64 f x = rck_lookup h64 s (hdl key meta size bsize fpl retries) x /\
  (size * bsize < two64 -> q_len f = rck_length s (hdl key meta size bsize fpl retries)).
Proof.
  intros f s x HC Hok. split.
  - exact (cuckoo_lookup_refines key meta size bsize fpl retries meta_not_bucket meta_not_len bsize_pos bsize_small size_pos h64 f s x HC Hok).
  - exact (cuckoo_length_refines key meta size bsize fpl retries meta_not_bucket meta_not_len bsize_pos bsize_small size_pos h64 f s HC).
Qed.
End CuckooPair.
Print Assumptions C08_cuckoo_new.
Print Assumptions C08_cuckoo_same_answers_until_relocation.
Print Assumptions C08_cuckoo_lookup_and_length.
(* non-vacuity: two new filters (4 buckets of 2 slots) are related, and a concrete history of two
   inserts and a remove meets the hypotheses of the history theorem *)
Example C08_cuckoo_premises_hold :
  let ops := [CIns [1] false true []; CIns [2] false true []; CRem [1]] in
  exists f s, CR k_a k_m 4 2 2 5 f s /\ Forall (op_ok 2 h64c) ops /\ no_reloc_run h64c f ops.
Proof.
  intros ops. exists (ck_new 4 2 2 5), (snd (rck_new [] 4 2 2 5 k_a k_m)). split; [|split].
  - apply (C08_cuckoo_new k_a k_m 4 2 2 5 km_not_bucket km_not_len ltac:(lia) ltac:(vm_compute; reflexivity) ltac:(lia) h64c []);
      [vm_compute; reflexivity|vm_compute; discriminate|intros; split; reflexivity].
  - unfold ops. repeat constructor; vm_compute; reflexivity.
  - unfold ops. cbn [no_reloc_run no_reloc]. split; [|split; [|split; exact I]].
    + do 5 eexists. split; [vm_compute; reflexivity|]. split; [vm_compute; reflexivity|]. split; [vm_compute; reflexivity|].
      left. vm_compute. reflexivity.
    + do 5 eexists. split; [vm_compute; reflexivity|]. split; [vm_compute; reflexivity|]. split; [vm_compute; reflexivity|].
      left. vm_compute. reflexivity.
Qed.

(* ---------- Top-K: same report up to the choice among entries tied at the smallest count ---------- *)
From GX.Proofs Require TopKInv TopKRedisInv TopKPair.

(* the relation between the in-memory heap a and the Redis sorted set b: same number of entries,
   and either the same entries, or (both full) the same smallest count mu, the same entries above
   mu, and at least one entry at mu *)
Definition C08_topk_related (k : nat) (a b : list (bytes * N)) : Prop :=
  length a = length b /\ (length a <= k)%nat /\
  (Permutation.Permutation a b \/
   (length a = k /\ exists mu, (forall e, In e a -> mu <= snd e) /\ (forall e, In e b -> mu <= snd e) /\
      Permutation.Permutation (filter (fun e => mu <? snd e) a) (filter (fun e => mu <? snd e) b) /\
      filter (fun e => snd e =? mu) a <> [])).
Theorem C08_topk_related_is_J : forall k a b, C08_topk_related k a b <-> TopKPair.J k a b.
Proof. intros k a b. unfold C08_topk_related, TopKPair.J, TopKPair.lower, TopKPair.abv, TopKPair.lvl. reflexivity. Qed.

(* new structures with the same parameters (fresh, pairwise different Redis keys) are related *)
Theorem C08_topk_new : forall (cpos : N -> N -> bytes -> list N) rows cols,
  (forall x, length (cpos rows cols x) = N.to_nat rows) ->
  (forall x p, In p (cpos rows cols x) -> p < cols) ->
  forall s k er acc ertxt acctxt skey smeta hkey meta t s2 m0,
  rtopk_new s k rows cols er acc ertxt acctxt skey smeta hkey meta = (Ok t, s2) ->
  cms_new rows cols = Ok m0 ->
  sget s hkey = None -> hkey <> smeta -> hkey <> meta ->
  (forall r, row_key skey r <> hkey) -> (forall r, row_key skey r <> meta) ->
  TopKPair.PI cpos rows cols (mkTopk k m0 []) s2 t [].
Proof. exact TopKPair.pair_new. Qed.
Print Assumptions C08_topk_new.

(* EVERY history of inserts (counts >= 1, total below 2^53) keeps the two variants related: both
   runs succeed, each variant keeps its own invariant (C04), the Redis sketch keeps representing
   the in-memory one, and heap and sorted set stay related *)
Theorem C08_topk_same_report_up_to_ties : forall (cpos : N -> N -> bytes -> list N) rows cols,
  (forall x, length (cpos rows cols x) = N.to_nat rows) ->
  (forall x p, In p (cpos rows cols x) -> p < cols) ->
  0 < rows -> 0 < cols ->
  forall ins mt s rt H,
  TopKPair.PI cpos rows cols mt s rt H -> 1 <= t_k mt -> Forall (fun e => 1 <= snd e) ins -> CMSProofs.total (H ++ ins) < B53 ->
  exists mt' rt' s', TopKInv.trun cpos mt ins = Ok mt' /\ TopKRedisInv.rtrun cpos s rt ins = (Ok rt', s') /\
    TopKPair.PI cpos rows cols mt' s' rt' (H ++ ins) /\ t_k mt' = t_k mt.
Proof. exact TopKPair.pair_history. Qed.
Print Assumptions C08_topk_same_report_up_to_ties.

(* related collections have the same number of entries and the same multiset of counts *)
Theorem C08_topk_same_counts : forall k (a b : list (bytes * N)), (1 <= k)%nat -> TopKPair.J k a b ->
  length a = length b /\ Permutation.Permutation (map snd a) (map snd b).
Proof. exact TopKPair.J_counts. Qed.
Print Assumptions C08_topk_same_counts.

(* non-vacuity: a new Top-K of each kind (k = 3, 2x3 sketch, concrete fresh keys) are related *)
Example C08_topk_premises_hold : exists t s2 m0, TopKPair.PI cpos1 2 3 (mkTopk 3 m0 []) s2 t [] /\ rt_k t = 3.
Proof.
  destruct (rtopk_new [] 3 2 3 0 0 [48] [48] k_a k_m k_b k_n) as [r s0] eqn:En.
  assert (Hr : exists t, r = Ok t /\ rt_k t = 3) by (vm_compute in En; injection En as <- _; eauto).
  destruct Hr as (t & -> & Hk).
  destruct (cms_new 2 3) as [m0|e|p] eqn:Em; try (vm_compute in Em; discriminate).
  assert (Hrow : forall key r k, length k = 4%nat -> length key = 4%nat -> row_key key r <> k).
  { intros key r k Hk0 Hkey E. apply (f_equal (@length N)) in E. unfold row_key in E. rewrite app_length in E.
    pose proof (RedisProofs.dec_nonempty r). destruct (dec r); [contradiction|]. cbn in E. lia. }
  exists t, s0, m0. split; [|exact Hk].
  apply (C08_topk_new cpos1 2 3 cpos1_len cpos1_lt [] 3 0 0 [48] [48] k_a k_m k_b k_n t s0 m0 En Em);
    try reflexivity; try (vm_compute; discriminate); try (intros r; apply Hrow; reflexivity).
Qed.
