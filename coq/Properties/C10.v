(* C10 — JSON Export/Import round-trips every reachable state. Statements only.
   Export/Import are modelled at the level of parsed documents (the harness parses the
   implementation's bytes with encoding/json and the model's document is diffed against it);
   import (export s) = s, hence the same parameters, the same answers now and after any further
   common history, and Equals (C17 reflexivity).
   Proved: Count-Min, HyperLogLog, Top-K on elements that are valid UTF-8, Bloom (through the
   bitset bit packing) and cuckoo (for every state satisfying the slot-count invariant).
   REFUTED: Top-K elements that are not valid UTF-8 come back with U+FFFD (known finding).
   Redis Count-Min: Export reads the represented matrix and Import under a new key gives a copy
   representing the same sketch with the exporter untouched. The other Redis variants' documents
   are tied by correspondence (documents, Equals and paired queries after importing under new
   keys, exporter unchanged). *)
From GX.Model Require Import Base CMS Bloom HLL Cuckoo Heap TopK Codec Persist.
From GX.Model Require Import Redis RedisCMS.
From GX.Proofs Require Import ListLemmas JsonProofs EqualsProofs CuckooInv BloomCodec DocProofs RedisCMSRefine.

Theorem C10_cms_roundtrip : forall s key, imp_cms (doc_cms s key) = Ok s.
Proof. exact cms_doc_roundtrip. Qed.

Theorem C10_hll_roundtrip : forall ftext fbits h, fbits (ftext (h_alpha h)) = h_alpha h ->
  imp_hll fbits (doc_hll ftext h) = Ok h.
Proof. exact hll_doc_roundtrip. Qed.

Theorem C10_topk_roundtrip_utf8 : forall ftext fbits p t,
  fbits (ftext (tp_er p)) = tp_er p -> fbits (ftext (tp_acc p)) = tp_acc p ->
  0 < c_rows (t_sketch t) -> 0 < c_cols (t_sketch t) ->
  Forall (fun e => json_string (fst e) = fst e) (t_heap t) ->
  imp_topk fbits (doc_topk ftext p t) = Ok (p, t).
Proof. exact topk_doc_roundtrip. Qed.

Theorem C10_ascii_is_utf8 : forall s, Forall (fun b => b < 128) s -> json_string s = s.
Proof. exact json_string_ascii. Qed.

Theorem C10_topk_binary_element_refuted : json_string [255; 254] <> [255; 254].
Proof. vm_compute. discriminate. Qed.

(* the imported structure compares Equal to the original (reflexivity of Equals, C17) *)
Theorem C10_imported_equals_original_cms : forall s key s',
  imp_cms (doc_cms s key) = Ok s' -> cms_equals_o s s' = Ok true.
Proof. intros s key s' H. rewrite cms_doc_roundtrip in H. injection H as <-. exact (cms_equals_refl s). Qed.

(* Bloom: the document carries the bitset image; importing it gives back the identical filter *)
Theorem C10_bloom_roundtrip : forall f,
  N.of_nat (length (b_bits f)) < two64 -> b_bsize f = N.of_nat (length (b_bits f)) ->
  imp_bloom (doc_bloom f) = Ok f.
Proof. exact bloom_doc_roundtrip. Qed.

(* Cuckoo: for every state satisfying the slot-count invariant - i.e. every state reachable on
   elements with a non-empty fingerprint (C13_length_accounting), with any holes left by removes
   and any relocations - Export succeeds and Import gives back the identical filter: every
   fingerprint in the slot it came from, every counter, Length and all parameters *)
Theorem C10_cuckoo_roundtrip : forall f, ck_inv f ->
  exists d, doc_cuckoo f = Ok d /\ imp_cuckoo d = Ok f.
Proof. exact cuckoo_doc_roundtrip. Qed.

(* Redis-backed Count-Min sketch: Export reads exactly the represented matrix, and importing it
   under a new key (same length, different) gives a copy that represents the same in-memory
   sketch while the exporter's rows are untouched - so, by the refinement (C08), the copy answers
   every query as the exporter does, now and after common updates below 2^53 *)
Theorem C10_redis_cms_export_is_matrix : forall rows cols s h m,
  refines rows cols s h m -> rcms_matrix s h = c_matrix m.
Proof. exact matrix_refines. Qed.

Theorem C10_redis_cms_import_new_key : forall rows cols s h m key' allsum meta',
  refines rows cols s h m -> length key' = length (rc_key h) -> key' <> rc_key h ->
  let s' := rcms_set_matrix s key' (rcms_matrix s h) in
  refines rows cols s' (mkRcms rows cols allsum key' meta') m /\ refines rows cols s' h m.
Proof. exact import_new_key_refines. Qed.

Print Assumptions C10_cms_roundtrip.
Print Assumptions C10_hll_roundtrip.
Print Assumptions C10_topk_roundtrip_utf8.
Print Assumptions C10_ascii_is_utf8.
Print Assumptions C10_topk_binary_element_refuted.
Print Assumptions C10_imported_equals_original_cms.
Print Assumptions C10_bloom_roundtrip.
Print Assumptions C10_cuckoo_roundtrip.
Print Assumptions C10_redis_cms_import_new_key.
