(* C10 — JSON Export/Import round-trips every reachable state. Statements only.
   Export/Import are modelled at the level of parsed documents (the harness parses the
   implementation's bytes with encoding/json and the model's document is diffed against it);
   import (export s) = s, hence the same parameters, the same answers now and after any further
   common history, and Equals (C17 reflexivity).
   Proved: Count-Min, HyperLogLog, Top-K on elements that are valid UTF-8.
   REFUTED: Top-K elements that are not valid UTF-8 come back with U+FFFD (known finding).
   Bloom and cuckoo documents: tied by correspondence (documents, Equals and paired queries
   after importing into dirty targets and after further common updates); not yet theorems. *)
From GX.Model Require Import Base CMS Bloom HLL Cuckoo Heap TopK Codec Persist.
From GX.Proofs Require Import ListLemmas JsonProofs EqualsProofs.

Theorem C10_cms_roundtrip : forall s key, imp_cms (doc_cms s key) = Ok s.
Proof. exact cms_doc_roundtrip. Qed.

Theorem C10_hll_roundtrip : forall ftext fbits h, fbits (ftext (h_alpha h)) = h_alpha h ->
  imp_hll fbits (doc_hll ftext h) = Ok h.
Proof. exact hll_doc_roundtrip. Qed.

Theorem C10_topk_roundtrip_utf8 : forall ftext fbits p t,
  fbits (ftext (tp_er p)) = tp_er p -> fbits (ftext (tp_acc p)) = tp_acc p ->
  0 < c_rows (t_sketch t) -> 0 < c_cols (t_sketch t) ->
  Forall (fun e => json_string (fst e) = fst e) (t_heap t) ->
  imp_topk fbits (doc_topk ftext p t) = Ok (p, t).
Proof. exact topk_doc_roundtrip. Qed.

Theorem C10_ascii_is_utf8 : forall s, Forall (fun b => b < 128) s -> json_string s = s.
Proof. exact json_string_ascii. Qed.

Theorem C10_topk_binary_element_refuted : json_string [255; 254] <> [255; 254].
Proof. vm_compute. discriminate. Qed.

(* the imported structure compares Equal to the original (reflexivity of Equals, C17) *)
Theorem C10_imported_equals_original_cms : forall s key s',
  imp_cms (doc_cms s key) = Ok s' -> cms_equals_o s s' = Ok true.
Proof. intros s key s' H. rewrite cms_doc_roundtrip in H. injection H as <-. exact (cms_equals_refl s). Qed.

Print Assumptions C10_cms_roundtrip.
Print Assumptions C10_hll_roundtrip.
Print Assumptions C10_topk_roundtrip_utf8.
Print Assumptions C10_ascii_is_utf8.
Print Assumptions C10_topk_binary_element_refuted.
Print Assumptions C10_imported_equals_original_cms.
