(* C10 — JSON Export/Import round-trips every reachable state. Statements only.
   Export/Import are modelled at the level of parsed documents (the harness parses the
   implementation's bytes with encoding/json and the model's document is diffed against it);
   import (export s) = s, hence the same parameters, the same answers now and after any further
   common history, and Equals (C17 reflexivity).
   Proved: Count-Min, HyperLogLog, Top-K on elements that are valid UTF-8, Bloom (through the
   bitset bit packing) and cuckoo (for every state satisfying the slot-count invariant).
   REFUTED: Top-K elements that are not valid UTF-8 come back with U+FFFD (known finding).
   Redis variants, on the Redis models: Count-Min Export reads the represented matrix and Import
   under a new key gives a copy representing the same sketch with the exporter untouched;
   HyperLogLog Export reads the represented registers and Import under any data key represents
   them again; the Bloom image/import pair returns the identical Redis string and cached size;
   cuckoo Import writes exactly the exported bucket lists (holes included), counters and Length,
   so a consistent filter is imported as a consistent filter with the same buckets; the Top-K
   sorted set of every reachable state is strictly ordered and is rebuilt exactly by the ZADD
   loop of Import. The documents themselves, Equals and paired queries after importing under new
   keys are additionally diffed against the code. *)
From GX.Model Require Import Base CMS Bloom HLL Cuckoo Heap TopK Codec Persist.
From GX.Model Require Import Redis RedisCMS RedisHLL RedisBloom RedisCuckoo RedisTopK.
From GX.Proofs Require Import ListLemmas JsonProofs EqualsProofs CuckooInv BloomCodec DocProofs RedisCMSRefine.
From GX.Proofs Require Import HLLProofs RedisHLLRefine RedisCuckooInv TopKInv TopKRedisInv RedisDocProofs RedisCuckooDoc RedisTopKDoc.
From GX.Proofs Require Import NonVacuity.
From Coq Require Import ZArith.

Theorem C10_cms_roundtrip : forall s key, imp_cms (doc_cms s key) = Ok s.
Proof. exact cms_doc_roundtrip. Qed.

Theorem C10_hll_roundtrip : forall ftext fbits h, fbits (ftext (h_alpha h)) = h_alpha h ->
  imp_hll fbits (doc_hll ftext h) = Ok h.
Proof. exact hll_doc_roundtrip. Qed.

Theorem C10_topk_roundtrip_utf8 : forall ftext fbits p t,
  fbits (ftext (tp_er p)) = tp_er p -> fbits (ftext (tp_acc p)) = tp_acc p ->
  0 < c_rows (t_sketch t) -> 0 < c_cols (t_sketch t) ->
  Forall (fun e => json_string (fst e) = fst e) (t_heap t) ->
  imp_topk fbits (doc_topk ftext p t) = Ok (p, t).
Proof. exact topk_doc_roundtrip. Qed.

Theorem C10_ascii_is_utf8 : forall s, Forall (fun b => b < 128) s -> json_string s = s.
Proof. exact json_string_ascii. Qed.

Theorem C10_topk_binary_element_refuted : json_string [255; 254] <> [255; 254].
Proof. vm_compute. discriminate. Qed.

(* the imported structure compares Equal to the original (reflexivity of Equals, C17) *)
Theorem C10_imported_equals_original_cms : forall s key s',
  imp_cms (doc_cms s key) = Ok s' -> cms_equals_o s s' = Ok true.
Proof. intros s key s' H. rewrite cms_doc_roundtrip in H. injection H as <-. exact (cms_equals_refl s). Qed.

(* Bloom: the document carries the bitset image; importing it gives back the identical filter *)
Theorem C10_bloom_roundtrip : forall f,
  N.of_nat (length (b_bits f)) < two64 -> b_bsize f = N.of_nat (length (b_bits f)) ->
  imp_bloom (doc_bloom f) = Ok f.
Proof. exact bloom_doc_roundtrip. Qed.

(* Cuckoo: for every state satisfying the slot-count invariant - i.e. every state reachable on
   elements with a non-empty fingerprint (C13_length_accounting), with any holes left by removes
   and any relocations - Export succeeds and Import gives back the identical filter: every
   fingerprint in the slot it came from, every counter, Length and all parameters *)
Theorem C10_cuckoo_roundtrip : forall f, ck_inv f ->
  exists d, doc_cuckoo f = Ok d /\ imp_cuckoo d = Ok f.
Proof. exact cuckoo_doc_roundtrip. Qed.

(* Redis-backed Count-Min sketch: Export reads exactly the represented matrix, and importing it
   under a new key (same length, different) gives a copy that represents the same in-memory
   sketch while the exporter's rows are untouched - so, by the refinement (C08), the copy answers
   every query as the exporter does, now and after common updates below 2^53 *)
Theorem C10_redis_cms_export_is_matrix : forall rows cols s h m,
  refines rows cols s h m -> rcms_matrix s h = c_matrix m.
Proof. exact matrix_refines. Qed.

Theorem C10_redis_cms_import_new_key : forall rows cols s h m key' allsum meta',
  refines rows cols s h m -> length key' = length (rc_key h) -> key' <> rc_key h ->
  let s' := rcms_set_matrix s key' (rcms_matrix s h) in
  refines rows cols s' (mkRcms rows cols allsum key' meta') m /\ refines rows cols s' h m.
Proof. exact import_new_key_refines. Qed.

(* Redis HyperLogLog *)
Theorem C10_redis_hll_export_is_registers : forall s h mh,
  hrefines s h mh -> rhll_export_regs s h = Ok (h_regs mh).
Proof. exact rhll_export_is_registers. Qed.
Theorem C10_redis_hll_import_represents : forall s h mh key,
  hwf mh -> h_regs mh <> [] -> key <> rh_meta h ->
  exists h' s', rhll_import s h (h_m mh) (h_p mh) (h_alpha mh) (h_regs mh) key = (Ok h', s') /\
                hrefines s' h' mh /\ rh_key h' = key /\ rh_meta h' = rh_meta h.
Proof. exact rhll_import_represents. Qed.

(* Redis Bloom: the image written by Export, fed to Import, stores the identical string *)
Theorem C10_redis_bloom_roundtrip : forall s h v s2 h2 m k,
  r_get s (rb_key h) = Some v -> Forall (fun b => (b < 256)%N) v -> (rb_bsize h < two64)%N ->
  rb_nil h = false -> rb_nil h2 = false -> rb_key h2 <> rb_meta h2 ->
  exists img h' s', rbloom_image s h = Ok img /\ rbloom_import s2 h2 m k img = (Ok h', s') /\
    r_get s' (rb_key h') = Some v /\ rb_key h' = rb_key h2 /\ rb_bsize h' = rb_bsize h /\
    rb_size h' = m /\ rb_k h' = k /\ rb_nil h' = false.
Proof. exact rbloom_image_import_roundtrip. Qed.

(* Redis cuckoo: Import writes the exported lists, counters and Length; a consistent filter is
   imported as a consistent filter with the same buckets *)
Theorem C10_redis_cuckoo_import_views : forall key meta,
  (forall i, meta <> bucket_key key i) -> (forall i, meta <> len_key (bucket_key key i)) ->
  forall size bsize fpl retries s len (bks : list (list bytes)),
  N.of_nat (length bks) = size -> meta <> key ->
  let s' := snd (rck_import s size bsize fpl retries len bks key meta) in
  (forall i, (i < size)%N ->
     blist key s' i = nth (N.to_nat i) bks [] /\
     bcount key s' i = Some (Z.of_N (count_nonempty (nth (N.to_nat i) bks [])))) /\
  mlen meta s' = Some (Z.of_N len).
Proof. exact rck_import_views. Qed.
Theorem C10_redis_cuckoo_import_of_export : forall key meta,
  (forall i, meta <> bucket_key key i) -> (forall i, meta <> len_key (bucket_key key i)) ->
  forall size bsize fpl retries key0 meta0 s0 s,
  (1 <= bsize)%N -> (bsize < 2 ^ 62)%N -> meta <> key ->
  RI key0 meta0 size bsize s0 ->
  let bks := map (fun i => blist key0 s0 i) (nseq size) in
  let s' := snd (rck_import s size bsize fpl retries (N.of_nat (tot key0 size s0)) bks key meta) in
  RI key meta size bsize s' /\ (forall i, (i < size)%N -> blist key s' i = blist key0 s0 i) /\
  tot key size s' = tot key0 size s0.
Proof. exact rck_import_of_export_RI. Qed.

(* Redis Top-K: every reachable sorted set is rebuilt exactly by Import's ZADD loop *)
Theorem C10_redis_topk_heap_rebuilt : forall s hkey entries,
  zstrict entries -> NoDup (names entries) ->
  r_zset (rtopk_import_heap s hkey entries) hkey = entries.
Proof. exact rtopk_import_heap_roundtrip. Qed.
Theorem C10_redis_topk_heap_roundtrip : forall (cpos : N -> N -> bytes -> list N) rows cols,
  (forall x, length (cpos rows cols x) = N.to_nat rows) ->
  (forall x p, In p (cpos rows cols x) -> (p < cols)%N) -> (0 < rows)%N -> (0 < cols)%N ->
  forall s t H ins s2 hkey',
  RTI cpos rows cols s t H -> zstrict (heap_of s t) -> (1 <= rt_k t)%N ->
  Forall (fun e => (1 <= snd e)%N) ins -> (CMSProofs.total (H ++ ins) < B53)%N ->
  exists t' s', rtrun cpos s t ins = (Ok t', s') /\
    r_zset (rtopk_import_heap s2 hkey' (heap_of s' t')) hkey' = heap_of s' t'.
Proof. exact redis_topk_heap_roundtrip. Qed.

Example C10_redis_topk_premises_hold : zstrict [([120], 1); ([97], 2); ([98], 2)].
Proof. exact zstrict_inhabited. Qed.

Print Assumptions C10_cms_roundtrip.
Print Assumptions C10_hll_roundtrip.
Print Assumptions C10_topk_roundtrip_utf8.
Print Assumptions C10_ascii_is_utf8.
Print Assumptions C10_topk_binary_element_refuted.
Print Assumptions C10_imported_equals_original_cms.
Print Assumptions C10_bloom_roundtrip.
Print Assumptions C10_cuckoo_roundtrip.
Print Assumptions C10_redis_cms_import_new_key.
Print Assumptions C10_redis_hll_import_represents.
Print Assumptions C10_redis_bloom_roundtrip.
Print Assumptions C10_redis_cuckoo_import_of_export.
Print Assumptions C10_redis_topk_heap_roundtrip.
