(* C14 — a failed cuckoo insert is signalled and, if non-destructive, changes nothing.
   Statements only. *)
From GX.Model Require Import Base Murmur Cuckoo.
From GX.Proofs Require Import ListLemmas CuckooProofs.

(* exhausting the retries is always signalled (the model's InsFull is the documented panic),
   never reported as success *)
Theorem C14_exhausted_is_signalled : forall h64 f index curr draws items destr,
  match evict_loop h64 0 f index curr draws items destr with InsOk _ => False | _ => True end.
Proof. exact evict_exhausted_signals. Qed.

(* Length is unchanged by every failed insert, destructive or not *)
Theorem C14_failed_insert_keeps_length : forall h64 f x destr coin draws,
  match ck_insert h64 f x destr coin draws with
  | InsOk f' => q_len f' = wrap64 (q_len f + 1)
  | InsFull f' => q_len f' = q_len f
  | InsPanic _ f' => q_len f' = q_len f
  end.
Proof. exact insert_len. Qed.

Print Assumptions C14_exhausted_is_signalled.
Print Assumptions C14_failed_insert_keeps_length.
