(* C14 — a failed cuckoo insert is signalled and, if non-destructive, changes nothing.
   Statements only. *)
From GX.Model Require Import Base Murmur Cuckoo.
From GX.Model Require Import Redis RedisCMS RedisCuckoo.
From GX.Proofs Require Import ListLemmas CuckooProofs CuckooInv RedisCuckooInv.
From Coq Require Import ZArith Permutation.
Open Scope N_scope.

(* exhausting the retries is always signalled (the model's InsFull is the documented panic),
   never reported as success *)
Theorem C14_exhausted_is_signalled : forall h64 f index curr draws items destr,
  match evict_loop h64 0 f index curr draws items destr with InsOk _ => False | _ => True end.
Proof. exact evict_exhausted_signals. Qed.

(* Length is unchanged by every failed insert, destructive or not *)
Theorem C14_failed_insert_keeps_length : forall h64 f x destr coin draws,
  match ck_insert h64 f x destr coin draws with
  | InsOk f' => q_len f' = wrap64 (q_len f + 1)
  | InsFull f' => q_len f' = q_len f
  | InsPanic _ f' => q_len f' = q_len f
  end.
Proof. exact insert_len. Qed.

(* non-destructive: whenever the insert fails with "filter is full" the WHOLE state - every slot,
   every bucket counter, Length, the parameters - is exactly what it was; for every configuration,
   state (reachable or not), element, hash and random choices *)
Theorem C14_nondestructive_changes_nothing : forall h64 f x coin draws f',
  ck_insert h64 f x false coin draws = InsFull f' -> f' = f.
Proof. exact insert_full_nondestructive. Qed.

(* destructive: the multiset of slot contents after the failure, plus ONE fingerprint that left
   the table, equals the multiset before plus the new fingerprint - so at most one previously
   stored entry is displaced (exactly one, or none when the lost one is the new fingerprint) and
   nothing is duplicated; an insert that returns normally filled one empty slot with the new
   fingerprint and only moved the others *)
Theorem C14_destructive_displaces_at_most_one : forall h64 f x coin draws fp i1 i2,
  ck_positions h64 f x = Ok (fp, i1, i2) ->
  match ck_insert h64 f x true coin draws with
  | InsOk f' => Permutation ([] :: all_slots f') (fp :: all_slots f)
  | InsFull f' => exists lost, Permutation (lost :: all_slots f') (fp :: all_slots f)
  | InsPanic _ _ => True
  end.
Proof. exact insert_conserves. Qed.

(* ... and Length stays equal to the number of stored entries after every failed insert *)
Theorem C14_failed_insert_keeps_invariant : forall h64 f x destr coin draws,
  ck_inv f -> fp_ok h64 (q_fpl f) x = true ->
  match ck_insert h64 f x destr coin draws with
  | InsOk f' => ck_inv f' /\ stored f' = S (stored f)
  | InsFull f' | InsPanic _ f' => ck_inv f' /\ stored f' = stored f
  end.
Proof. exact insert_failed_keeps_inv. Qed.

(* non-vacuity: on the murmur3 model a full 2x1 filter fails both ways *)
Example C14_failure_reachable :
  let f := match ck_insert murmur64 (ck_new 2 1 2 3) [97] false true [] with InsOk g => g | _ => ck_new 2 1 2 3 end in
  let f2 := match ck_insert murmur64 f [98] false true [] with InsOk g => g | _ => f end in
  q_len f2 = 2%N /\
  (exists g, ck_insert murmur64 f2 [99] false true [0; 0; 0] = InsFull g) /\
  (exists g, ck_insert murmur64 f2 [99] true true [0; 0; 0] = InsFull g).
Proof. vm_compute. split; [reflexivity|]. split; eexists; reflexivity. Qed.

(* Redis-backed variant: an insert either returns (one more stored entry, Length + 1), or signals
   "full" with the counters, the number of stored entries and Length unchanged (destructive or
   not); it never ends in a runtime panic, for elements with a non-empty fingerprint *)
Theorem C14_redis_insert_outcomes : forall key meta size bsize,
  (forall i, meta <> bucket_key key i) -> (forall i, meta <> len_key (bucket_key key i)) ->
  1 <= bsize -> bsize < 2 ^ 62 ->
  forall fpl retries h64 s c x destr coin draws fp i1 i2,
  buckets_ok key size bsize s -> mlen meta s = Some c ->
  rck_positions h64 (hdl key meta size bsize fpl retries) x = Ok (fp, i1, i2) -> fp <> [] -> i1 < size -> i2 < size ->
  Forall (fun k => k < 2 ^ 53) draws ->
  match rck_insert h64 s (hdl key meta size bsize fpl retries) x destr coin draws with
  | RInsOk s' => buckets_ok key size bsize s' /\ tot key size s' = S (tot key size s) /\ mlen meta s' = Some (c + 1)%Z
  | RInsFull s' => buckets_ok key size bsize s' /\ tot key size s' = tot key size s /\ mlen meta s' = Some c
  | RInsPanic _ _ => False
  end.
Proof. exact rinsert_ok. Qed.

(* Redis-backed variant, non-destructive option: a "filter is full" failure leaves every bucket
   list, every bucket counter, the number of stored entries and the Length field exactly as they
   were - for every bucket count (power of two or not) and every state satisfying the counters
   invariant *)
Theorem C14_redis_nondestructive_changes_nothing : forall key meta size bsize,
  (forall i, meta <> bucket_key key i) -> (forall i, meta <> len_key (bucket_key key i)) ->
  1 <= bsize -> bsize < 2 ^ 62 ->
  forall fpl retries h64, 0 < size ->
  forall s c x coin draws fp i1 i2 s',
  buckets_ok key size bsize s -> mlen meta s = Some c ->
  rck_positions h64 (hdl key meta size bsize fpl retries) x = Ok (fp, i1, i2) -> fp <> [] -> i1 < size -> i2 < size ->
  Forall (fun k => k < 2 ^ 53) draws ->
  rck_insert h64 s (hdl key meta size bsize fpl retries) x false coin draws = RInsFull s' ->
  (forall j, blist key s' j = blist key s j) /\ buckets_ok key size bsize s' /\
  tot key size s' = tot key size s /\ mlen meta s' = Some c.
Proof. exact rinsert_full_nondestructive. Qed.

Print Assumptions C14_exhausted_is_signalled.
Print Assumptions C14_failed_insert_keeps_length.
Print Assumptions C14_nondestructive_changes_nothing.
Print Assumptions C14_destructive_displaces_at_most_one.
Print Assumptions C14_failed_insert_keeps_invariant.
Print Assumptions C14_redis_insert_outcomes.
Print Assumptions C14_redis_nondestructive_changes_nothing.

(* Redis, destructive half (and C02's "an Insert that returns has stored the element"): over the
   multiset of all non-empty entries of all bucket lists, an Insert that returns adds exactly the new
   fingerprint; one that fails with the destructive option exchanges at most one entry -- exactly one
   fingerprint (possibly the inserted one) left the table. Every hash, configuration, consistent
   store and random choices. *)
From GX.Proofs Require RedisCuckooConserve.
Theorem C14_redis_destructive_displaces_at_most_one : forall key meta size bsize fpl retries,
  (forall i, meta <> bucket_key key i) -> (forall i, meta <> len_key (bucket_key key i)) ->
  1 <= bsize -> bsize < 2 ^ 62 -> 0 < size ->
  forall h64 s c x coin draws fp i1 i2,
  buckets_ok key size bsize s -> mlen meta s = Some c ->
  rck_positions h64 (hdl key meta size bsize fpl retries) x = Ok (fp, i1, i2) -> fp <> [] -> i1 < size -> i2 < size ->
  Forall (fun k => k < 2 ^ 53) draws ->
  match rck_insert h64 s (hdl key meta size bsize fpl retries) x true coin draws with
  | RInsOk s' => Permutation.Permutation (RedisCuckooConserve.rall key size s') (fp :: RedisCuckooConserve.rall key size s)
  | RInsFull s' => exists lost, Permutation.Permutation (lost :: RedisCuckooConserve.rall key size s') (fp :: RedisCuckooConserve.rall key size s)
  | RInsPanic _ _ => True
  end.
Proof. exact RedisCuckooConserve.rinsert_conserves. Qed.
Print Assumptions C14_redis_destructive_displaces_at_most_one.

(* non-vacuity of the Redis theorems: a new filter (4 buckets of 2 slots, concrete fresh keys) and an
   element with a non-empty fingerprint meet their premises *)
From GX.Proofs Require Import NonVacuity.
Example C14_redis_premises_hold : exists s c fp i1 i2,
  buckets_ok k_a 4 2 s /\ mlen k_m s = Some c /\
  rck_positions h64c (hdl k_a k_m 4 2 2 5) [1] = Ok (fp, i1, i2) /\ fp <> [] /\ i1 < 4 /\ i2 < 4.
Proof.
  destruct RI_inhabited as (s & (Hok & Hm) & _).
  exists s. eexists. eexists. eexists. eexists. split; [exact Hok|]. split; [exact Hm|].
  split; [vm_compute; reflexivity|]. split; [discriminate|]. split; vm_compute; reflexivity.
Qed.
