(* C04 — Top-K reports every element heavier than its weakest entry. Statements only.
   Full statement: for every k >= 1, every sketch dimensions, any hash, every insert history
   with counts >= 1: Values has min(k, #distinct) entries, no duplicates, ordered by
   (count desc, element asc); every reported count c satisfies true <= c <= total; every
   unreported element has true total <= smallest reported count.
   PROVED HERE (partial): Values() is exactly the heap array's contents reordered so that no
   later entry is strictly before an earlier one in the (count desc, element asc) order.
   The clauses about length, duplicates and count bounds are so far decided by the
   correspondence (Values and the raw heap array are diffed after every step against the
   faithful container/heap model) plus the exact-totals monitor; their theorems (heap order,
   pop = minimum) are not yet in place. *)
From GX.Model Require Import Base CMS Heap TopK.
From GX.Proofs Require Import ListLemmas TopKProofs.
From Coq Require Import Permutation Sorted.

Theorem C04_values_partial : forall t,
  Permutation (t_heap t) (topk_values t) /\
  length (topk_values t) = length (t_heap t) /\
  Sorted nafter (topk_values t).
Proof.
  intros t. split; [exact (sort_entries_perm (t_heap t))|].
  split; [exact (sort_entries_length (t_heap t))|exact (sort_entries_sorted (t_heap t))].
Qed.

(* the comparison used by Values is a strict order's "before": never both ways, and total up to
   identical (count, element) pairs *)
Theorem C04_order_antisym : forall a b, before a b = true -> before b a = false.
Proof. exact before_irrefl_false. Qed.
Theorem C04_order_total : forall a b,
  before a b = true \/ before b a = true \/ (hfreq a = hfreq b /\ bytes_cmp (fst a) (fst b) = Eq).
Proof. exact before_total. Qed.

Print Assumptions C04_values_partial.
Print Assumptions C04_order_antisym.
Print Assumptions C04_order_total.
