(* C04 — Top-K reports every element heavier than its weakest entry. Statements only.
   In-memory variant, PROVED IN FULL for the clauses that do not mention hash collisions: for
   every k >= 1, every sketch dimensions, EVERY position function with in-range results (so every
   hash, sketches of any width, collisions included) and every insert history with counts >= 1
   whose total fits the uint64 counters:
     - Values has exactly min(k, number of distinct inserted elements) entries, no duplicates,
       ordered by (count desc, element asc);
     - every reported count is at least that element's true total, at most the sketch's current
       estimate of it (hence exact whenever the estimate is exact: no collisions), and at most
       the total of all inserted counts;
     - every element that is not reported has a true total no greater than EVERY reported count
       (in particular the smallest).
   The proof goes through the heap invariant of container/heap (up/down/Push/Pop/Remove on the
   array, Proofs/HeapProofs.v) and the Count-Min bounds of C03 (Proofs/CMSProofs.v).
   The Redis variant (Count-Min rows as Redis lists + a sorted set) satisfies the same clauses for
   histories whose total stays below 2^53 (C04_redis_values): the sorted set evolves by the
   ZREM/ZADD/ZPOPMIN step of Insert, the estimates are those of the Redis sketch, which equal the
   in-memory ones there (Proofs/RedisCMSRefine.v); a new Top-K with fresh keys satisfies the
   invariant (C04_redis_new).
   Last clause of the property (C04_mem_exact_without_collisions, C04_redis_exact_without_collisions):
   whenever the sketch is exact on the inserted elements, every reported count IS the element's
   true total and no element left out is heavier than any reported one -- the report is a top-k
   set with exact counts, ties at the boundary going either way. *)
From GX.Model Require Import Base CMS Heap TopK Redis RedisCMS RedisTopK.
From GX.Proofs Require Import ListLemmas CMSProofs HeapProofs TopKProofs TopKInv RedisCMSRefine TopKRedisInv.
From GX.Proofs Require Import RedisTopKDoc NonVacuity TopKExact.
From Coq Require Import Permutation Sorted.

Theorem C04_values_partial : forall t,
  Permutation (t_heap t) (topk_values t) /\
  length (topk_values t) = length (t_heap t) /\
  Sorted nafter (topk_values t).
Proof.
  intros t. split; [exact (sort_entries_perm (t_heap t))|].
  split; [exact (sort_entries_length (t_heap t))|exact (sort_entries_sorted (t_heap t))].
Qed.

(* the comparison used by Values is a strict order's "before": never both ways, and total up to
   identical (count, element) pairs *)
Theorem C04_order_antisym : forall a b, before a b = true -> before b a = false.
Proof. exact before_irrefl_false. Qed.
Theorem C04_order_total : forall a b,
  before a b = true \/ before b a = true \/ (hfreq a = hfreq b /\ bytes_cmp (fst a) (fst b) = Eq).
Proof. exact before_total. Qed.

Section Mem.
Variable cpos : N -> N -> bytes -> list N.
Variable rows cols : N.
Hypothesis cpos_len : forall x, length (cpos rows cols x) = N.to_nat rows.
Hypothesis cpos_lt : forall x p, In p (cpos rows cols x) -> p < cols.

Theorem C04_mem_values : forall k s0 ins,
  1 <= k -> cms_new rows cols = Ok s0 -> Forall (fun e => 1 <= snd e) ins -> total ins < two64 ->
  exists t, trun cpos (mkTopk k s0 []) ins = Ok t /\
    let vs := topk_values t in
    NoDup (map fst vs) /\
    N.of_nat (length vs) = N.min k (N.of_nat (length (distinct ins))) /\
    (forall e, In e vs -> In (fst e) (map fst ins) /\ true_count ins (fst e) <= hfreq e /\
                          hfreq e <= cms_count cpos (t_sketch t) (fst e) /\ hfreq e <= total ins) /\
    (forall x, In x (map fst ins) -> ~ In x (map fst vs) ->
       N.of_nat (length vs) = k /\ forall e, In e vs -> true_count ins x <= hfreq e).
Proof. exact (topk_values_history cpos rows cols cpos_len cpos_lt). Qed.
End Mem.

(* Redis-backed variant *)
Theorem C04_redis_values : forall (cpos : N -> N -> bytes -> list N) rows cols,
  (forall x, length (cpos rows cols x) = N.to_nat rows) ->
  (forall x p, In p (cpos rows cols x) -> p < cols) ->
  forall s t H ins,
  0 < rows -> 0 < cols -> RTI cpos rows cols s t H -> 1 <= rt_k t ->
  Forall (fun e => 1 <= snd e) ins -> total (H ++ ins) < B53 ->
  exists t' s', rtrun cpos s t ins = (Ok t', s') /\ rt_k t' = rt_k t /\
    let vs := rtopk_values s' t' in
    let H' := H ++ ins in
    NoDup (map fst vs) /\
    N.of_nat (length vs) = N.min (rt_k t) (N.of_nat (length (distinct H'))) /\
    (forall e, In e vs -> In (fst e) (map fst H') /\ true_count H' (fst e) <= hfreq e /\ hfreq e <= total H') /\
    (forall x, In x (map fst H') -> ~ In x (map fst vs) ->
       N.of_nat (length vs) = rt_k t /\ forall e, In e vs -> true_count H' x <= hfreq e).
Proof. exact redis_topk_values_history. Qed.

Theorem C04_redis_new : forall (cpos : N -> N -> bytes -> list N) rows cols,
  (forall x, length (cpos rows cols x) = N.to_nat rows) ->
  (forall x p, In p (cpos rows cols x) -> p < cols) ->
  forall s k er acc ertxt acctxt skey smeta hkey meta t s2 m0,
  rtopk_new s k rows cols er acc ertxt acctxt skey smeta hkey meta = (Ok t, s2) ->
  cms_new rows cols = Ok m0 ->
  sget s hkey = None -> hkey <> smeta -> hkey <> meta ->
  (forall r, row_key skey r <> hkey) -> (forall r, row_key skey r <> meta) ->
  RTI cpos rows cols s2 t [] /\ rt_k t = k.
Proof. exact rtopk_new_RTI. Qed.

(* the heap operations of container/heap, on arrays of any content: Push adds the entry, Pop
   removes an entry of minimal frequency, Remove(i) removes entry i; each keeps the heap order *)
Theorem C04_heap_push : forall h e, heap_ok h ->
  heap_ok (heap_push h e) /\ Permutation (heap_push h e) (e :: h).
Proof. intros h e H. split; [apply heap_push_ok; exact H|apply heap_push_perm]. Qed.
Theorem C04_heap_pop : forall h m h', heap_ok h -> heap_pop h = Ok (m, h') ->
  heap_ok h' /\ Permutation (m :: h') h /\ forall e, In e h -> hfreq m <= hfreq e.
Proof.
  intros h m h' H E. destruct (heap_pop_ok h m h' H E) as [A B]. destruct (heap_pop_perm h m h' E) as [C _]. auto.
Qed.
Theorem C04_heap_remove : forall h i, heap_ok h -> (i < length h)%nat ->
  heap_ok (heap_remove h i) /\ Permutation (Heap.hget h i :: heap_remove h i) h.
Proof. intros h i H Hi. split; [apply heap_remove_ok; assumption|apply heap_remove_perm; exact Hi]. Qed.

(* non-vacuity: the code's own position formula satisfies the hypotheses (C03_code_positions_wf),
   and a concrete history on a 1x2 sketch (heavy collisions) with k = 2 evicts and reports *)
Example C04_premises_hold :
  exists s0, cms_new 1 2 = Ok s0 /\ (1 <= 2) /\
  Forall (fun e : bytes * N => 1 <= snd e) [([1], 5); ([2], 7); ([3], 1); ([1], 2)] /\
  total [([1], 5); ([2], 7); ([3], 1); ([1], 2)] < two64.
Proof. eexists. split; [reflexivity|]. split; [vm_compute; congruence|]. split; [repeat constructor; vm_compute; congruence|vm_compute; reflexivity]. Qed.

Example C04_redis_premises_hold : exists s t, RTI cpos1 2 3 s t [] /\ rt_k t = 3 /\ zstrict (heap_of s t).
Proof. exact RTI_inhabited. Qed.

Print Assumptions C04_values_partial.
Print Assumptions C04_order_antisym.
Print Assumptions C04_order_total.
Print Assumptions C04_mem_values.
Print Assumptions C04_heap_push.
Print Assumptions C04_heap_pop.
Print Assumptions C04_heap_remove.
Print Assumptions C04_redis_values.
Print Assumptions C04_redis_new.

(* no collisions => exact top k *)
Theorem C04_mem_exact_without_collisions : forall cpos rows cols,
  (forall x, length (cpos rows cols x) = N.to_nat rows) ->
  (forall x p, In p (cpos rows cols x) -> p < cols) ->
  forall k s0 ins t,
  1 <= k -> cms_new rows cols = Ok s0 -> Forall (fun e => 1 <= snd e) ins -> total ins < two64 ->
  trun cpos (mkTopk k s0 []) ins = Ok t ->
  (forall x, In x (map fst ins) -> cms_count cpos (t_sketch t) x = true_count ins x) ->
  let vs := topk_values t in
  (forall e, In e vs -> hfreq e = true_count ins (fst e)) /\
  (forall x, In x (map fst ins) -> ~ In x (map fst vs) ->
     forall e, In e vs -> true_count ins x <= true_count ins (fst e)).
Proof. exact topk_exact_without_collisions. Qed.
Print Assumptions C04_mem_exact_without_collisions.
Theorem C04_redis_exact_without_collisions : forall (cpos : N -> N -> bytes -> list N) rows cols,
  (forall x, length (cpos rows cols x) = N.to_nat rows) ->
  (forall x p, In p (cpos rows cols x) -> p < cols) ->
  forall s t H,
  0 < rows -> 0 < cols -> RTI cpos rows cols s t H -> 1 <= rt_k t ->
  (forall m, refines rows cols s (rt_sketch t) m -> repr cpos rows cols m H ->
     forall x, In x (map fst H) -> cms_count cpos m x = true_count H x) ->
  let vs := rtopk_values s t in
  (forall e, In e vs -> hfreq e = true_count H (fst e)) /\
  (forall x, In x (map fst H) -> ~ In x (map fst vs) ->
     forall e, In e vs -> true_count H x <= true_count H (fst e)).
Proof. exact redis_topk_exact_without_collisions. Qed.
Print Assumptions C04_redis_exact_without_collisions.
(* the hypothesis "exact on the inserted elements" is met, e.g., by two elements in different cells *)
Definition cpos_first_byte (rows cols : N) (x : bytes) : list N := repeat (hd 0 x mod cols) (N.to_nat rows).
Example C04_exactness_premises_hold :
  exists s0 t, cms_new 2 3 = Ok s0 /\
    trun cpos_first_byte (mkTopk 1 s0 []) [([1], 5); ([2], 7); ([1], 2)] = Ok t /\
    forallb (fun x => cms_count cpos_first_byte (t_sketch t) x =? true_count [([1], 5); ([2], 7); ([1], 2)] x) [[1]; [2]] = true.
Proof. eexists. eexists. split; [reflexivity|]. split; [vm_compute; reflexivity|vm_compute; reflexivity]. Qed.
