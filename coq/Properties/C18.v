(* C18 — a truncated persisted image is rejected, never half-loaded. Statements only.
   For every well-formed state and every cut k < |image|, ReadFrom on the first k bytes returns
   an error: not success, not a panic. Unbounded in the state size; proved from two facts about
   each decoder: reading p successfully implies reading p ++ q gives the same result with q left
   over, and decoders never panic. Proved: Count-Min, HyperLogLog, cuckoo filter, Top-K, Bloom.
   JSON documents, at the level of TEXT (Model/JsonText.v): a document is an ordered tree whose
   strings and keys carry their escaped source text and whose numbers / literals carry their
   literal text; jprint writes the compact form encoding/json writes. THEOREM
   (C18_json_strict_prefix_not_complete): for every well-formed object or array, no strict prefix
   of its text is a complete JSON text for the structural scanner (nesting depth outside strings
   back at 0, no string open, text not empty) -- between the opening and the closing bracket the
   depth is at least 1, whatever the strings contain -- while the whole text is complete. Tie to
   the code, on every run (suite json-text, machine 13): the implementation's Export bytes of all
   ten kinds of structure are split into raw tokens, the model prints the tree and must give back
   exactly those bytes and find the tree a well-formed object (so the exported text IS the print of
   such a value); and the set of prefix lengths encoding/json accepts (json.Valid, which Unmarshal
   runs first) must equal the set the model's scanner calls complete, for every prefix of every
   document (so the acceptance condition used in the theorem is validated, not assumed). Every
   strict prefix of the implementation's own image is also fed to Import by the persistence
   suites (exhaustive per state). *)
From GX.Model Require Import Base CMS Bloom HLL Cuckoo Heap TopK Codec.
From GX.Proofs Require Import ListLemmas CodecProofs BloomCodec.

Theorem C18_cms_truncated_rejected : forall s img k,
  cms_wf s -> enc_cms s = Ok img -> (k < length img)%nat -> exists t, dec_cms (firstn k img) = Err t.
Proof. exact cms_truncated_rejected. Qed.

Theorem C18_hll_truncated_rejected : forall h k,
  hll_cwf h -> (k < length (enc_hll h))%nat -> exists t, dec_hll (firstn k (enc_hll h)) = Err t.
Proof. exact hll_truncated_rejected. Qed.

Theorem C18_cuckoo_truncated_rejected : forall f img k,
  cuckoo_cwf f -> enc_cuckoo f = Ok img -> (k < length img)%nat ->
  exists t, dec_cuckoo (firstn k img) = Err t.
Proof. exact cuckoo_truncated_rejected. Qed.

Theorem C18_topk_truncated_rejected : forall p t img k,
  topk_cwf p t -> enc_topk p t = Ok img -> (k < length img)%nat ->
  exists e, dec_topk (firstn k img) = Err e.
Proof. exact topk_truncated_rejected. Qed.

Theorem C18_bloom_truncated_rejected : forall f k,
  bloom_cwf f -> (k < length (enc_bloom f))%nat -> exists t, dec_bloom (firstn k (enc_bloom f)) = Err t.
Proof. exact bloom_truncated_rejected. Qed.

Print Assumptions C18_cms_truncated_rejected.
Print Assumptions C18_hll_truncated_rejected.
Print Assumptions C18_cuckoo_truncated_rejected.
Print Assumptions C18_topk_truncated_rejected.
Print Assumptions C18_bloom_truncated_rejected.

(* ---------- JSON documents as text ---------- *)
From GX.Model Require Import JsonText.
From GX.Proofs Require JsonTextProofs.

Theorem C18_json_strict_prefix_not_complete : forall v k,
  jwf v = true -> JsonTextProofs.is_container v = true ->
  (k < length (jprint v))%nat -> jcomplete (firstn k (jprint v)) = false.
Proof. exact JsonTextProofs.strict_prefix_not_complete. Qed.
Print Assumptions C18_json_strict_prefix_not_complete.

(* between its brackets an object or array is at nesting depth >= 1 (the reason) *)
Theorem C18_json_inside_depth : forall v, jwf v = true -> JsonTextProofs.is_container v = true ->
  forall p q, jprint v = p ++ q -> p <> [] -> q <> [] -> (1 <= j_depth (jscan jinit p))%nat.
Proof. exact JsonTextProofs.container_prefix_depth. Qed.
Print Assumptions C18_json_inside_depth.

Theorem C18_json_whole_text_complete : forall v,
  jwf v = true -> JsonTextProofs.is_container v = true -> jcomplete (jprint v) = true.
Proof. exact JsonTextProofs.whole_text_complete. Qed.
Print Assumptions C18_json_whole_text_complete.

(* non-vacuity: a document with an escaped quote and brackets inside a string, a nested array and
   an empty object is well-formed; its text is what one expects; only the whole text is complete *)
Example C18_json_premises_hold :
  let v := JObj (FCons [107] (JStr [97; 92; 34; 125; 93]) (FCons [109] (JArr (JCons (JAtom [49]) (JCons (JObj FNil) JNil))) FNil)) in
  jwf v = true /\ JsonTextProofs.is_container v = true /\
  jprint v = [123; 34; 107; 34; 58; 34; 97; 92; 34; 125; 93; 34; 44; 34; 109; 34; 58; 91; 49; 44; 123; 125; 93; 125] /\
  complete_prefixes jinit 0 (jprint v) = [24%N].
Proof. vm_compute. repeat split; reflexivity. Qed.
