(* C18 — a truncated persisted image is rejected, never half-loaded. Statements only.
   For every well-formed state and every cut k < |image|, ReadFrom on the first k bytes returns
   an error: not success, not a panic. Unbounded in the state size; proved from two facts about
   each decoder: reading p successfully implies reading p ++ q gives the same result with q left
   over, and decoders never panic. Proved: Count-Min, HyperLogLog, cuckoo filter, Top-K, Bloom.
   JSON documents: every strict prefix of the implementation's own image is fed to Import by
   the correspondence harness (exhaustive per state); the JSON statement (every strict prefix
   of `{...}` is unbalanced) is not yet a theorem. *)
From GX.Model Require Import Base CMS Bloom HLL Cuckoo Heap TopK Codec.
From GX.Proofs Require Import ListLemmas CodecProofs BloomCodec.

Theorem C18_cms_truncated_rejected : forall s img k,
  cms_wf s -> enc_cms s = Ok img -> (k < length img)%nat -> exists t, dec_cms (firstn k img) = Err t.
Proof. exact cms_truncated_rejected. Qed.

Theorem C18_hll_truncated_rejected : forall h k,
  hll_cwf h -> (k < length (enc_hll h))%nat -> exists t, dec_hll (firstn k (enc_hll h)) = Err t.
Proof. exact hll_truncated_rejected. Qed.

Theorem C18_cuckoo_truncated_rejected : forall f img k,
  cuckoo_cwf f -> enc_cuckoo f = Ok img -> (k < length img)%nat ->
  exists t, dec_cuckoo (firstn k img) = Err t.
Proof. exact cuckoo_truncated_rejected. Qed.

Theorem C18_topk_truncated_rejected : forall p t img k,
  topk_cwf p t -> enc_topk p t = Ok img -> (k < length img)%nat ->
  exists e, dec_topk (firstn k img) = Err e.
Proof. exact topk_truncated_rejected. Qed.

Theorem C18_bloom_truncated_rejected : forall f k,
  bloom_cwf f -> (k < length (enc_bloom f))%nat -> exists t, dec_bloom (firstn k (enc_bloom f)) = Err t.
Proof. exact bloom_truncated_rejected. Qed.

Print Assumptions C18_cms_truncated_rejected.
Print Assumptions C18_hll_truncated_rejected.
Print Assumptions C18_cuckoo_truncated_rejected.
Print Assumptions C18_topk_truncated_rejected.
Print Assumptions C18_bloom_truncated_rejected.
