(* C17 — Equals agrees with observable behaviour. Statements only (in-memory variants, after the
   repairs listed in known-findings.txt): reflexive on every state, sound (true implies equal
   parameters and equal payload, hence identical answers to every query), total on
   well-formed states of any dimensions (no panic), symmetric where stated. *)
From GX.Model Require Import Base CMS Bloom HLL Cuckoo Heap TopK Codec Persist.
From GX.Proofs Require Import ListLemmas CodecProofs EqualsProofs.
From GX.Model Require Import Redis RedisCMS RedisHLL RedisCuckoo.
From GX.Proofs Require Import RedisCMSRefine RedisHLLRefine RedisEqualsProofs.

Theorem C17_bloom_sound : forall a b, bloom_equals a b = true ->
  b_size a = b_size b /\ b_k a = b_k b /\ b_bits a = b_bits b.
Proof. exact bloom_equals_sound. Qed.
Theorem C17_bloom_refl : forall a, bloom_equals a a = true.
Proof. exact bloom_equals_refl. Qed.
Theorem C17_bloom_sym : forall a b, bloom_equals a b = bloom_equals b a.
Proof. exact bloom_equals_sym. Qed.
Theorem C17_bloom_queries_agree : forall bpos a b x, bloom_equals a b = true ->
  bloom_lookup bpos a x = bloom_lookup bpos b x.
Proof. exact bloom_equals_queries. Qed.

Theorem C17_cms_sound : forall a b, cms_wf a -> cms_wf b -> cms_equals_o a b = Ok true ->
  c_rows a = c_rows b /\ c_cols a = c_cols b /\ c_matrix a = c_matrix b.
Proof. exact cms_equals_sound. Qed.
Theorem C17_cms_refl : forall a, cms_equals_o a a = Ok true.
Proof. exact cms_equals_refl. Qed.
Theorem C17_cms_total : forall a b, cms_wf a -> cms_wf b -> exists r, cms_equals_o a b = Ok r.
Proof. exact cms_equals_total. Qed.

Theorem C17_hll_sound : forall a b, hll_cwf a -> hll_cwf b -> hll_equals a b = Ok true ->
  h_m a = h_m b /\ h_regs a = h_regs b.
Proof. exact hll_equals_sound. Qed.
Theorem C17_hll_refl : forall a, hll_cwf a -> hll_equals a a = Ok true.
Proof. exact hll_equals_refl. Qed.
Theorem C17_hll_total : forall a b, hll_cwf a -> hll_cwf b -> exists r, hll_equals a b = Ok r.
Proof. exact hll_equals_total. Qed.

Theorem C17_cuckoo_sound : forall a b, cuckoo_cwf a -> cuckoo_cwf b -> ck_equals a b = Ok true -> a = b.
Proof. exact ck_equals_sound. Qed.
Theorem C17_cuckoo_refl : forall f, ck_equals f f = Ok true.
Proof. exact ck_equals_refl. Qed.

Theorem C17_topk_sound : forall pa a pb b, cms_wf (t_sketch a) -> cms_wf (t_sketch b) ->
  topk_equals pa a pb b = Ok true ->
  t_k a = t_k b /\ pa = pb /\ c_matrix (t_sketch a) = c_matrix (t_sketch b) /\ t_heap a = t_heap b.
Proof. exact topk_equals_sound. Qed.
Theorem C17_topk_refl : forall p t, topk_equals p t p t = Ok true.
Proof. exact topk_equals_refl. Qed.

(* Redis-backed Count-Min sketch: while the row lists represent matrices ma and mb (refines), the
   Lua compare script answers true EXACTLY when the matrices are equal - sound, complete, and
   therefore symmetric, for sketches of equal dimensions *)
Theorem C17_redis_cms_equals_iff : forall rows cols s a b ma mb,
  refines rows cols s a ma -> refines rows cols s b mb ->
  (rcms_equals s a b = true <-> c_matrix ma = c_matrix mb).
Proof. exact equals_refines. Qed.

(* Redis-backed HyperLogLog: while the lists represent the registers (hrefines), the compare
   script answers true exactly when the registers are equal *)
Theorem C17_redis_hll_equals_iff : forall s a b ma mb,
  hrefines s a ma -> hrefines s b mb -> h_m ma = h_m mb ->
  (rhll_equals s a b = true <-> h_regs ma = h_regs mb).
Proof. exact hll_equals_refines. Qed.

(* Redis-backed cuckoo filter: a true Equals means equal parameters, equal Length and - for
   bucket lists within capacity, which the accounting invariant of C13 guarantees - identical
   bucket contents *)
Theorem C17_redis_cuckoo_sound : forall s a b,
  (forall i, i < rq_size a -> (length (r_list s (bucket_key (rq_key a) i)) <= N.to_nat (rq_bsize a))%nat /\
                              (length (r_list s (bucket_key (rq_key b) i)) <= N.to_nat (rq_bsize a))%nat) ->
  rck_equals s a b = true ->
  rq_size a = rq_size b /\ rq_bsize a = rq_bsize b /\ rq_fpl a = rq_fpl b /\ rq_retries a = rq_retries b /\
  rck_length s a = rck_length s b /\
  forall i, i < rq_size a -> r_list s (bucket_key (rq_key a) i) = r_list s (bucket_key (rq_key b) i).
Proof. exact rck_equals_sound. Qed.

Print Assumptions C17_bloom_sound.
Print Assumptions C17_bloom_sym.
Print Assumptions C17_bloom_queries_agree.
Print Assumptions C17_cms_sound.
Print Assumptions C17_cms_total.
Print Assumptions C17_hll_sound.
Print Assumptions C17_hll_total.
Print Assumptions C17_cuckoo_sound.
Print Assumptions C17_topk_sound.
Print Assumptions C17_redis_cms_equals_iff.
Print Assumptions C17_redis_hll_equals_iff.
Print Assumptions C17_redis_cuckoo_sound.
