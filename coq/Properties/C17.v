(* C17 — Equals agrees with observable behaviour. Statements only (after the repairs listed in
   known-findings.txt): reflexive on every state, sound (true implies equal parameters and equal
   payload, hence identical answers to every query), total on well-formed states of any
   dimensions (no panic), symmetric where stated — for the five in-memory structures and, on the
   Redis models, for all five Redis-backed ones (Count-Min and HyperLogLog as exact
   characterisations through the refinements; Bloom, cuckoo and Top-K as soundness). *)
From GX.Model Require Import Base CMS Bloom HLL Cuckoo Heap TopK Codec Persist.
From GX.Proofs Require Import ListLemmas CodecProofs EqualsProofs.
From GX.Model Require Import Redis RedisCMS RedisHLL RedisCuckoo RedisBloom RedisTopK.
From GX.Proofs Require Import RedisCMSRefine RedisHLLRefine RedisEqualsProofs RedisEqualsProofs2.

Theorem C17_bloom_sound : forall a b, bloom_equals a b = true ->
  b_size a = b_size b /\ b_k a = b_k b /\ b_bits a = b_bits b.
Proof. exact bloom_equals_sound. Qed.
Theorem C17_bloom_refl : forall a, bloom_equals a a = true.
Proof. exact bloom_equals_refl. Qed.
Theorem C17_bloom_sym : forall a b, bloom_equals a b = bloom_equals b a.
Proof. exact bloom_equals_sym. Qed.
Theorem C17_bloom_queries_agree : forall bpos a b x, bloom_equals a b = true ->
  bloom_lookup bpos a x = bloom_lookup bpos b x.
Proof. exact bloom_equals_queries. Qed.

Theorem C17_cms_sound : forall a b, cms_wf a -> cms_wf b -> cms_equals_o a b = Ok true ->
  c_rows a = c_rows b /\ c_cols a = c_cols b /\ c_matrix a = c_matrix b.
Proof. exact cms_equals_sound. Qed.
Theorem C17_cms_refl : forall a, cms_equals_o a a = Ok true.
Proof. exact cms_equals_refl. Qed.
Theorem C17_cms_total : forall a b, cms_wf a -> cms_wf b -> exists r, cms_equals_o a b = Ok r.
Proof. exact cms_equals_total. Qed.

Theorem C17_hll_sound : forall a b, hll_cwf a -> hll_cwf b -> hll_equals a b = Ok true ->
  h_m a = h_m b /\ h_regs a = h_regs b.
Proof. exact hll_equals_sound. Qed.
Theorem C17_hll_refl : forall a, hll_cwf a -> hll_equals a a = Ok true.
Proof. exact hll_equals_refl. Qed.
Theorem C17_hll_total : forall a b, hll_cwf a -> hll_cwf b -> exists r, hll_equals a b = Ok r.
Proof. exact hll_equals_total. Qed.

Theorem C17_cuckoo_sound : forall a b, cuckoo_cwf a -> cuckoo_cwf b -> ck_equals a b = Ok true -> a = b.
Proof. exact ck_equals_sound. Qed.
Theorem C17_cuckoo_refl : forall f, ck_equals f f = Ok true.
Proof. exact ck_equals_refl. Qed.

Theorem C17_topk_sound : forall pa a pb b, cms_wf (t_sketch a) -> cms_wf (t_sketch b) ->
  topk_equals pa a pb b = Ok true ->
  t_k a = t_k b /\ pa = pb /\ c_matrix (t_sketch a) = c_matrix (t_sketch b) /\ t_heap a = t_heap b.
Proof. exact topk_equals_sound. Qed.
Theorem C17_topk_refl : forall p t, topk_equals p t p t = Ok true.
Proof. exact topk_equals_refl. Qed.

(* Redis-backed Count-Min sketch: while the row lists represent matrices ma and mb (refines), the
   Lua compare script answers true EXACTLY when the matrices are equal - sound, complete, and
   therefore symmetric, for sketches of equal dimensions *)
Theorem C17_redis_cms_equals_iff : forall rows cols s a b ma mb,
  refines rows cols s a ma -> refines rows cols s b mb ->
  (rcms_equals s a b = true <-> c_matrix ma = c_matrix mb).
Proof. exact equals_refines. Qed.

(* Redis-backed HyperLogLog: while the lists represent the registers (hrefines), the compare
   script answers true exactly when the registers are equal *)
Theorem C17_redis_hll_equals_iff : forall s a b ma mb,
  hrefines s a ma -> hrefines s b mb -> h_m ma = h_m mb ->
  (rhll_equals s a b = true <-> h_regs ma = h_regs mb).
Proof. exact hll_equals_refines. Qed.

(* Redis-backed cuckoo filter: a true Equals means equal parameters, equal Length and - for
   bucket lists within capacity, which the accounting invariant of C13 guarantees - identical
   bucket contents *)
Theorem C17_redis_cuckoo_sound : forall s a b,
  (forall i, i < rq_size a -> (length (r_list s (bucket_key (rq_key a) i)) <= N.to_nat (rq_bsize a))%nat /\
                              (length (r_list s (bucket_key (rq_key b) i)) <= N.to_nat (rq_bsize a))%nat) ->
  rck_equals s a b = true ->
  rq_size a = rq_size b /\ rq_bsize a = rq_bsize b /\ rq_fpl a = rq_fpl b /\ rq_retries a = rq_retries b /\
  rck_length s a = rck_length s b /\
  forall i, i < rq_size a -> r_list s (bucket_key (rq_key a) i) = r_list s (bucket_key (rq_key b) i).
Proof. exact rck_equals_sound. Qed.

(* Redis-backed Bloom filter: true means equal parameters and the identical Redis string, hence
   the same answer to every Lookup *)
Theorem C17_redis_bloom_sound : forall s a b, rbloom_equals s a b = Ok true ->
  rb_size a = rb_size b /\ rb_k a = rb_k b /\
  exists v, r_get s (rb_key a) = Some v /\ r_get s (rb_key b) = Some v.
Proof. exact rbloom_equals_sound. Qed.
Theorem C17_redis_bloom_same_answers : forall bpos s a b x, rbloom_equals s a b = Ok true ->
  rbloom_lookup bpos s a x = rbloom_lookup bpos s b x.
Proof. exact rbloom_equals_same_answers. Qed.
Theorem C17_redis_bloom_refl : forall s a v, rb_nil a = false -> r_get s (rb_key a) = Some v -> rbloom_equals s a a = Ok true.
Proof. exact rbloom_equals_refl. Qed.

(* Redis-backed Top-K: true means equal parameters, sketches that pass their comparison and - for
   sorted sets within the size bound k, which the invariant of C04 guarantees - identical sorted
   sets, hence identical Values() *)
Theorem C17_redis_topk_sound : forall s a b, rtopk_equals s a b = true ->
  (N.of_nat (length (r_zset s (rt_heap a))) <= rt_k a) -> (N.of_nat (length (r_zset s (rt_heap b))) <= rt_k a) ->
  rt_k a = rt_k b /\ rt_acc a = rt_acc b /\ rt_er a = rt_er b /\
  rcms_equals s (rt_sketch a) (rt_sketch b) = true /\
  r_zset s (rt_heap a) = r_zset s (rt_heap b) /\ rtopk_values s a = rtopk_values s b.
Proof. exact rtopk_equals_sound. Qed.
Theorem C17_redis_topk_refl : forall s a, rcms_equals s (rt_sketch a) (rt_sketch a) = true -> rtopk_equals s a a = true.
Proof. exact rtopk_equals_refl. Qed.

Print Assumptions C17_bloom_sound.
Print Assumptions C17_bloom_sym.
Print Assumptions C17_bloom_queries_agree.
Print Assumptions C17_cms_sound.
Print Assumptions C17_cms_total.
Print Assumptions C17_hll_sound.
Print Assumptions C17_hll_total.
Print Assumptions C17_cuckoo_sound.
Print Assumptions C17_topk_sound.
Print Assumptions C17_redis_cms_equals_iff.
Print Assumptions C17_redis_hll_equals_iff.
Print Assumptions C17_redis_cuckoo_sound.
Print Assumptions C17_redis_bloom_same_answers.
Print Assumptions C17_redis_topk_sound.

(* symmetry of the positive verdict for the in-memory structures (Bloom: C17_bloom_sym): on
   well-formed states Equals(a, b) says true exactly when Equals(b, a) does *)
From GX.Proofs Require EqualsSym.
Theorem C17_cms_sym : forall a b, cms_wf a -> cms_wf b -> (cms_equals_o a b = Ok true <-> cms_equals_o b a = Ok true).
Proof. exact EqualsSym.cms_equals_sym. Qed.
Print Assumptions C17_cms_sym.
Theorem C17_hll_sym : forall a b, hll_cwf a -> hll_cwf b -> (hll_equals a b = Ok true <-> hll_equals b a = Ok true).
Proof. exact EqualsSym.hll_equals_sym. Qed.
Print Assumptions C17_hll_sym.
Theorem C17_cuckoo_sym : forall a b, cuckoo_cwf a -> cuckoo_cwf b -> (ck_equals a b = Ok true <-> ck_equals b a = Ok true).
Proof. exact EqualsSym.ck_equals_sym. Qed.
Print Assumptions C17_cuckoo_sym.
Theorem C17_topk_sym : forall pa a pb b, cms_wf (t_sketch a) -> cms_wf (t_sketch b) ->
  (topk_equals pa a pb b = Ok true <-> topk_equals pb b pa a = Ok true).
Proof. exact EqualsSym.topk_equals_sym. Qed.
Print Assumptions C17_topk_sym.

(* C17: evaluated: a well-formed sketch equals itself, differs from a copy with one cell changed,
   both ways *)
Example C17_equals_evaluated :
  cms_wf (mkCms 2 2 5 [[1; 2]; [3; 4]]) /\ cms_wf (mkCms 2 2 5 [[1; 2]; [3; 5]]) /\
  cms_equals_o (mkCms 2 2 5 [[1; 2]; [3; 4]]) (mkCms 2 2 9 [[1; 2]; [3; 4]]) = Ok true /\
  cms_equals_o (mkCms 2 2 5 [[1; 2]; [3; 4]]) (mkCms 2 2 5 [[1; 2]; [3; 5]]) = Ok false /\
  cms_equals_o (mkCms 2 2 5 [[1; 2]; [3; 5]]) (mkCms 2 2 5 [[1; 2]; [3; 4]]) = Ok false.
Proof.
  split; [unfold cms_wf, small64, two64; cbn; repeat split; try reflexivity; repeat constructor|].
  split; [unfold cms_wf, small64, two64; cbn; repeat split; try reflexivity; repeat constructor|].
  vm_compute. repeat split; reflexivity.
Qed.
