(* C17 — Equals agrees with observable behaviour. Statements only (in-memory variants, after the
   repairs listed in known-findings.txt): reflexive on every state, sound (true implies equal
   parameters and equal payload, hence identical answers to every query), total on
   well-formed states of any dimensions (no panic), symmetric where stated. *)
From GX.Model Require Import Base CMS Bloom HLL Cuckoo Heap TopK Codec Persist.
From GX.Proofs Require Import ListLemmas CodecProofs EqualsProofs.

Theorem C17_bloom_sound : forall a b, bloom_equals a b = true ->
  b_size a = b_size b /\ b_k a = b_k b /\ b_bits a = b_bits b.
Proof. exact bloom_equals_sound. Qed.
Theorem C17_bloom_refl : forall a, bloom_equals a a = true.
Proof. exact bloom_equals_refl. Qed.
Theorem C17_bloom_sym : forall a b, bloom_equals a b = bloom_equals b a.
Proof. exact bloom_equals_sym. Qed.
Theorem C17_bloom_queries_agree : forall bpos a b x, bloom_equals a b = true ->
  bloom_lookup bpos a x = bloom_lookup bpos b x.
Proof. exact bloom_equals_queries. Qed.

Theorem C17_cms_sound : forall a b, cms_wf a -> cms_wf b -> cms_equals_o a b = Ok true ->
  c_rows a = c_rows b /\ c_cols a = c_cols b /\ c_matrix a = c_matrix b.
Proof. exact cms_equals_sound. Qed.
Theorem C17_cms_refl : forall a, cms_equals_o a a = Ok true.
Proof. exact cms_equals_refl. Qed.
Theorem C17_cms_total : forall a b, cms_wf a -> cms_wf b -> exists r, cms_equals_o a b = Ok r.
Proof. exact cms_equals_total. Qed.

Theorem C17_hll_sound : forall a b, hll_cwf a -> hll_cwf b -> hll_equals a b = Ok true ->
  h_m a = h_m b /\ h_regs a = h_regs b.
Proof. exact hll_equals_sound. Qed.
Theorem C17_hll_refl : forall a, hll_cwf a -> hll_equals a a = Ok true.
Proof. exact hll_equals_refl. Qed.
Theorem C17_hll_total : forall a b, hll_cwf a -> hll_cwf b -> exists r, hll_equals a b = Ok r.
Proof. exact hll_equals_total. Qed.

Theorem C17_cuckoo_sound : forall a b, cuckoo_cwf a -> cuckoo_cwf b -> ck_equals a b = Ok true -> a = b.
Proof. exact ck_equals_sound. Qed.
Theorem C17_cuckoo_refl : forall f, ck_equals f f = Ok true.
Proof. exact ck_equals_refl. Qed.

Theorem C17_topk_sound : forall pa a pb b, cms_wf (t_sketch a) -> cms_wf (t_sketch b) ->
  topk_equals pa a pb b = Ok true ->
  t_k a = t_k b /\ pa = pb /\ c_matrix (t_sketch a) = c_matrix (t_sketch b) /\ t_heap a = t_heap b.
Proof. exact topk_equals_sound. Qed.
Theorem C17_topk_refl : forall p t, topk_equals p t p t = Ok true.
Proof. exact topk_equals_refl. Qed.

Print Assumptions C17_bloom_sound.
Print Assumptions C17_bloom_sym.
Print Assumptions C17_bloom_queries_agree.
Print Assumptions C17_cms_sound.
Print Assumptions C17_cms_total.
Print Assumptions C17_hll_sound.
Print Assumptions C17_hll_total.
Print Assumptions C17_cuckoo_sound.
Print Assumptions C17_topk_sound.
