(* C07 — in-memory structures are safe for concurrent use. Statements only.
   Two layers:
   (1) the lock discipline itself: in the thread/mutex model of Model/Conc.v, if every method
       body runs between Acquire and Release, the invariant "a thread is inside a body iff it
       holds the lock" holds in every reachable configuration, so at most one thread is ever
       inside a body and only the lock holder's steps change the guarded state; and along every
       execution, whenever the lock is free, the shared state IS the sequential execution of the
       bodies acquired so far, in acquisition order, each once and whole, every thread's bodies
       in its program order (C07_serialisable): no update lost or applied twice, the outcome
       equals a sequential ordering of the calls;
   (2) the obligation that the CODE follows the discipline: Generated/LockFacts.v is rewritten
       from /repo's sources on every run by the translator (/verif/lockfacts); C07_facts_ok
       re-checks, by computation on the regenerated facts, that every exported method of the five
       structures that touches guarded state (other than the deserialisers Import/ReadFrom,
       which the property's operation list does not include) does so under the lock — except the
       methods listed as known findings (Generated/KnownUnlocked.v, rewritten from
       known-findings.txt). Removing a Lock(), releasing it early, or adding an unlocked accessor
       breaks C07_facts_ok. *)
From Coq Require Import List String Bool.
From GX.Model Require Import Conc.
From GX.Proofs Require Import ConcProofs ConcSerial.
From GX.Proofs Require InterleaveProofs ConcOrder.
From GX.Generated Require Import LockFacts KnownUnlocked.
Import ListNotations.
Open Scope string_scope.

Definition deserializers : list string := ["Import"; "ReadFrom"].
Definition in_scope (f : lock_fact) : bool := negb (existsb (String.eqb (lf_method f)) deserializers).
Definition excused (f : lock_fact) : bool := existsb (String.eqb (fact_key f)) known_unlocked.

Theorem C07_facts_ok :
  forallb (fun f => negb (in_scope f) || well_locked f || excused f) facts = true.
Proof. vm_compute. reflexivity. Qed.

(* the update and query methods the property names are all under the lock *)
Definition must_be_locked : list string :=
  ["BloomFilter.Insert"; "BloomFilter.Lookup"; "CuckooFilter.Insert"; "CuckooFilter.Lookup";
   "CuckooFilter.Remove"; "CountMinSketch.Update"; "CountMinSketch.Count";
   "HyperLogLog.Update"; "HyperLogLog.Count"].
Theorem C07_core_methods_locked :
  forallb (fun k => existsb (fun f => String.eqb (fact_key f) k && well_locked f && negb (excused f)) facts)
          must_be_locked = true.
Proof. vm_compute. reflexivity. Qed.

Theorem C07_mutex_invariant_initial : forall (S : Type) (s : S) calls,
  mutex_inv S (mkConfig S s None (map (fun cs => mkThread S cs (Idle S)) calls)).
Proof. exact init_mutex. Qed.

Theorem C07_mutex_invariant_preserved : forall (S : Type) i (c c' : config S),
  mutex_inv S c -> step S i c c' -> mutex_inv S c'.
Proof. exact step_preserves_mutex. Qed.

Theorem C07_at_most_one_inside : forall (S : Type) (c : config S) j k tj tk,
  mutex_inv S c -> nth_error (c_threads S c) j = Some tj -> nth_error (c_threads S c) k = Some tk ->
  is_running S tj = true -> is_running S tk = true -> j = k.
Proof. exact at_most_one_running. Qed.

Theorem C07_only_holder_changes_state : forall (S : Type) i (c c' : config S),
  mutex_inv S c -> step S i c c' -> c_shared S c' <> c_shared S c -> c_holder S c = Some i.
Proof. exact only_holder_changes_state. Qed.

(* serialisability: for any number of threads, any programs, any schedule *)
Theorem C07_serialisable : forall (S : Type) (c0 : config S) log c,
  initial S c0 -> mutex_inv S c0 -> reach S c0 log c -> c_holder S c = None ->
  c_shared S c = apply_log S log (c_shared S c0) /\
  forall j t, nth_error (c_threads S c) j = Some t ->
    exists t0, nth_error (c_threads S c0) j = Some t0 /\
      (calls_of S j log ++ pending S t ++ t_calls S t = t_calls S t0)%list.
Proof. exact serialisable. Qed.

(* order-independent structures: when the bodies commute as state transformers (Bloom bits,
   Count-Min cells, HyperLogLog registers -- the C16 lemmas), the final state of ANY concurrent
   execution equals the state produced by the same calls applied one after another in ANY order *)
Theorem C07_order_independent : forall (S : Type) (c0 : config S) log c log',
  initial S c0 -> mutex_inv S c0 -> reach S c0 log c -> c_holder S c = None ->
  InterleaveProofs.pairwise_commute (ConcOrder.transformers S log) -> Permutation.Permutation log log' ->
  c_shared S c = apply_log S log' (c_shared S c0).
Proof. exact ConcOrder.order_independent. Qed.

Theorem C07_complete_execution : forall (S : Type) (c0 : config S) log c,
  initial S c0 -> mutex_inv S c0 -> reach S c0 log c -> c_holder S c = None ->
  (forall j t, nth_error (c_threads S c) j = Some t -> t_pc S t = Idle S /\ t_calls S t = []) ->
  c_shared S c = apply_log S log (c_shared S c0) /\
  forall j t, nth_error (c_threads S c) j = Some t ->
    exists t0, nth_error (c_threads S c0) j = Some t0 /\ calls_of S j log = t_calls S t0.
Proof. exact complete_execution. Qed.

Print Assumptions C07_facts_ok.
Print Assumptions C07_core_methods_locked.
Print Assumptions C07_mutex_invariant_preserved.
Print Assumptions C07_at_most_one_inside.
Print Assumptions C07_only_holder_changes_state.
Print Assumptions C07_serialisable.
Print Assumptions C07_order_independent.
Print Assumptions C07_complete_execution.
