(* C05 — HyperLogLog accuracy and totality of Update. Statements only.
   The accuracy clause is statistical over the hash; what is decided here by proof:
   totality of Update for m >= 128, its refutation for m <= 64, and the refutation of
   "an empty sketch counts about zero" (no small-range correction). *)
From GX.Model Require Import Base HLL.
From GX.Proofs Require Import ListLemmas HLLProofs.
From GX.Model Require Import Redis RedisHLL.
From GX.Proofs Require Import RedisHLLRefine.

(* for every hash function: with m = 2^p >= 128 registers, Update never fails *)
Theorem C05_update_total_partial : forall hash s x,
  hwf s -> 128 <= h_m s -> exists s', hll_update (hic_of hash) s x = Ok s'.
Proof. exact code_update_total. Qed.

(* reachable states are well-formed, so the hypothesis above is met along every history *)
Theorem C05_new_wf : forall m al s, hll_new m al = Ok s -> hwf s /\ h_m s = m /\ h_p s = N.log2 m.
Proof. exact new_wf. Qed.
Theorem C05_update_preserves_wf : forall hic s x s',
  hwf s -> hll_update hic s x = Ok s' -> hwf s' /\ h_m s' = h_m s /\ h_p s' = h_p s.
Proof. exact update_ok_wf. Qed.

(* the register index is 1 + leading zeros, i.e. in [1, 65], independent of m *)
Theorem C05_index_range : forall p h, 1 <= fst (hll_index_count p h) <= 65.
Proof. intros p h; split; [exact (index_ge_1 p h)|exact (index_le_65 p h)]. Qed.

(* REFUTED for m <= 64: for every accepted m in {1,..,64} some hash value makes Update panic *)
Definition small_ms : list N := [1; 2; 4; 8; 16; 32; 64].
Definition update_panics_on (m h : N) : bool :=
  match hll_new m 0 with
  | Ok s => match hll_update (hic_of (fun _ => h)) s [] with Panic _ => true | _ => false end
  | _ => false
  end.
Theorem C05_update_refuted_small_m : forallb (fun m => update_panics_on m 0) small_ms = true.
Proof. vm_compute. reflexivity. Qed.

(* for m = 1 every update panics, whatever the hash *)
Theorem C05_update_refuted_m1 : forall hash s x,
  hll_new 1 0 = Ok s -> hll_update (hic_of hash) s x = Panic P_INDEX.
Proof.
  intros hash s x Hn. destruct (new_wf 1 0 s Hn) as (Hw & Hm & _).
  apply update_panics; auto. rewrite Hm. unfold hic_of. exact (index_ge_1 (h_p s) (hash x)).
Qed.

(* REFUTED: an empty sketch does not count ~0 — for m = 128..4096 the answer 0 is inconsistent
   with the estimator while round(alpha_m * m) is the consistent one *)
Definition empty_check (m c : N) : N := hll_count_check m (m * 2 ^ 255) (2 ^ 255) false false c.
Theorem C05_empty_refuted :
  forallb (fun m => empty_check m 0 =? 0) [128; 256; 512; 1024; 4096] = true /\
  empty_check 128 91 = 1 /\ empty_check 1024 737 = 1.
Proof. vm_compute. repeat split; reflexivity. Qed.

Example C05_premises_hold : exists s, hll_new 128 0 = Ok s /\ 128 <= h_m s.
Proof. eexists; split; [reflexivity|]. vm_compute. discriminate. Qed.

(* Redis-backed variant: for every hash, every Update of a sketch with at least 128 registers
   succeeds (the script finds its register), and keeps representing the in-memory registers *)
Theorem C05_redis_update_total : forall hash s h mh x,
  hrefines s h mh -> 128 <= h_m mh ->
  exists s' mh', rhll_update (hic_of hash) s h x = (Ok tt, s') /\
                 hll_update (hic_of hash) mh x = Ok mh' /\ hrefines s' h mh'.
Proof. exact rhll_update_total. Qed.

Print Assumptions C05_update_total_partial.
Print Assumptions C05_new_wf.
Print Assumptions C05_update_preserves_wf.
Print Assumptions C05_index_range.
Print Assumptions C05_update_refuted_small_m.
Print Assumptions C05_update_refuted_m1.
Print Assumptions C05_empty_refuted.
Print Assumptions C05_redis_update_total.
