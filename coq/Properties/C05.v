(* C05 — HyperLogLog accuracy and totality of Update. Statements only.
   The accuracy clause is statistical over the hash; what is decided here by proof:
   totality of Update for m >= 128, its refutation for m <= 64, and the refutation of
   "an empty sketch counts about zero" (no small-range correction); the estimator never goes
   down as elements arrive (C05_update_never_lowers_the_estimate, C05_history_never_lowers_it: the
   harmonic sum only shrinks), and -- the recorded accuracy finding as a theorem over ALL hash
   functions and ALL histories -- only registers 1..65 are ever written, so the harmonic sum of a
   sketch with m >= 66 registers is at least m - 65 and every answer consistent with the
   estimator's formula is bounded by about alpha_m m^2 / (m - 65), however many distinct elements
   were inserted (C05_registers_outside_1_65_stay_zero, C05_harmonic_sum_lower_bound,
   C05_estimate_bounded_refutes_accuracy). *)
From GX.Model Require Import Base HLL.
From GX.Proofs Require Import ListLemmas HLLProofs.
From GX.Model Require Import Redis RedisHLL.
From GX.Proofs Require Import RedisHLLRefine HLLApi HLLEstimate.

(* for every hash function: with m = 2^p >= 128 registers, Update never fails *)
Theorem C05_update_total_partial : forall hash s x,
  hwf s -> 128 <= h_m s -> exists s', hll_update (hic_of hash) s x = Ok s'.
Proof. exact code_update_total. Qed.

(* reachable states are well-formed, so the hypothesis above is met along every history *)
Theorem C05_new_wf : forall m al s, hll_new m al = Ok s -> hwf s /\ h_m s = m /\ h_p s = N.log2 m.
Proof. exact new_wf. Qed.
Theorem C05_update_preserves_wf : forall hic s x s',
  hwf s -> hll_update hic s x = Ok s' -> hwf s' /\ h_m s' = h_m s /\ h_p s' = h_p s.
Proof. exact update_ok_wf. Qed.

(* the register index is 1 + leading zeros, i.e. in [1, 65], independent of m *)
Theorem C05_index_range : forall p h, 1 <= fst (hll_index_count p h) <= 65.
Proof. intros p h; split; [exact (index_ge_1 p h)|exact (index_le_65 p h)]. Qed.

(* REFUTED for m <= 64: for every accepted m in {1,..,64} some hash value makes Update panic *)
Definition small_ms : list N := [1; 2; 4; 8; 16; 32; 64].
Definition update_panics_on (m h : N) : bool :=
  match hll_new m 0 with
  | Ok s => match hll_update (hic_of (fun _ => h)) s [] with Panic _ => true | _ => false end
  | _ => false
  end.
Theorem C05_update_refuted_small_m : forallb (fun m => update_panics_on m 0) small_ms = true.
Proof. vm_compute. reflexivity. Qed.

(* for m = 1 every update panics, whatever the hash *)
Theorem C05_update_refuted_m1 : forall hash s x,
  hll_new 1 0 = Ok s -> hll_update (hic_of hash) s x = Panic P_INDEX.
Proof.
  intros hash s x Hn. destruct (new_wf 1 0 s Hn) as (Hw & Hm & _).
  apply update_panics; auto. rewrite Hm. unfold hic_of. exact (index_ge_1 (h_p s) (hash x)).
Qed.

(* REFUTED: an empty sketch does not count ~0 — for m = 128..4096 the answer 0 is inconsistent
   with the estimator while round(alpha_m * m) is the consistent one *)
Definition empty_check (m c : N) : N := hll_count_check m (m * 2 ^ 255) (2 ^ 255) false false c.
Theorem C05_empty_refuted :
  forallb (fun m => empty_check m 0 =? 0) [128; 256; 512; 1024; 4096] = true /\
  empty_check 128 91 = 1 /\ empty_check 1024 737 = 1.
Proof. vm_compute. repeat split; reflexivity. Qed.

Example C05_premises_hold : exists s, hll_new 128 0 = Ok s /\ 128 <= h_m s.
Proof. eexists; split; [reflexivity|]. vm_compute. discriminate. Qed.

(* Redis-backed variant: for every hash, every Update of a sketch with at least 128 registers
   succeeds (the script finds its register), and keeps representing the in-memory registers *)
Theorem C05_redis_update_total : forall hash s h mh x,
  hrefines s h mh -> 128 <= h_m mh ->
  exists s' mh', rhll_update (hic_of hash) s h x = (Ok tt, s') /\
                 hll_update (hic_of hash) mh x = Ok mh' /\ hrefines s' h mh'.
Proof. exact rhll_update_total. Qed.

Print Assumptions C05_update_total_partial.
Print Assumptions C05_new_wf.
Print Assumptions C05_update_preserves_wf.
Print Assumptions C05_index_range.
Print Assumptions C05_update_refuted_small_m.
Print Assumptions C05_update_refuted_m1.
Print Assumptions C05_empty_refuted.
Print Assumptions C05_redis_update_total.

(* the estimate grows: an Update (any index function) never increases the harmonic sum
   sum_j 2^(-register_j) = hll_hsum_num / 2^255, so alpha m^2 / sum never decreases *)
Theorem C05_update_never_lowers_the_estimate : forall hic s x s',
  hwf s -> hll_update hic s x = Ok s' -> hll_hsum_num s' <= hll_hsum_num s.
Proof. exact update_hsum_le. Qed.
Print Assumptions C05_update_never_lowers_the_estimate.
Theorem C05_history_never_lowers_it : forall hic s xs s',
  hwf s -> upd_all hic s xs = Ok s' -> hll_hsum_num s' <= hll_hsum_num s.
Proof. exact updates_hsum_le. Qed.
Print Assumptions C05_history_never_lowers_it.

(* ACCURACY REFUTED for every hash function and every history (recorded finding): the code's
   register index is 1 + leading zeros, so registers 0 and 66.. of a sketch built by updates stay 0 *)
Theorem C05_registers_outside_1_65_stay_zero : forall hash m al s0 xs s,
  hll_new m al = Ok s0 -> upd_all (hic_of hash) s0 xs = Ok s ->
  forall j, (j = 0 \/ 65 < j)%nat -> nth j (h_regs s) 0 = 0.
Proof. exact regs_outside_stay_zero. Qed.
Print Assumptions C05_registers_outside_1_65_stay_zero.
Theorem C05_harmonic_sum_lower_bound : forall hash m al s0 xs s,
  66 <= m -> hll_new m al = Ok s0 -> upd_all (hic_of hash) s0 xs = Ok s ->
  (m - 65) * 2 ^ 255 <= hll_hsum_num s.
Proof. exact harmonic_sum_lower_bound. Qed.
Print Assumptions C05_harmonic_sum_lower_bound.
(* hence every answer c that is consistent with the estimator (what the correspondence checks of
   Count, for all four flag combinations) satisfies c <= ~ alpha_m m^2 / (m - 65) + 1/2, whatever
   the number of distinct elements inserted: alpha_m = a1/a2, guard = 2^40 *)
Theorem C05_estimate_bounded_refutes_accuracy : forall hash m al s0 xs s wc wr c,
  66 <= m -> hll_new m al = Ok s0 -> upd_all (hic_of hash) s0 xs = Ok s ->
  hll_count_check m (hll_hsum_num s) (2 ^ 255) wc wr c = 1 ->
  (2 * c - 1) * snd (hll_alpha m) * (m - 65) * guard <= 2 * fst (hll_alpha m) * m * m * (guard + 1).
Proof. exact estimate_bounded. Qed.
Print Assumptions C05_estimate_bounded_refutes_accuracy.
(* concretely: with 1024 registers the bound admits 788 and excludes 789; and the premises are
   met by a concrete run in which the harmonic sum strictly shrinks *)
Example C05_bound_instances :
  ((2 * 788 - 1) * snd (hll_alpha 1024) * (1024 - 65) * guard <=? 2 * fst (hll_alpha 1024) * 1024 * 1024 * (guard + 1)) = true /\
  ((2 * 789 - 1) * snd (hll_alpha 1024) * (1024 - 65) * guard <=? 2 * fst (hll_alpha 1024) * 1024 * 1024 * (guard + 1)) = false /\
  exists s0 s, hll_new 128 0 = Ok s0 /\ upd_all (hic_of (fun x => (3 + N.of_nat (length x)) * 2 ^ 26)) s0 [[1]; [2; 3]; []] = Ok s /\
               (hll_hsum_num s <? hll_hsum_num s0) = true.
Proof.
  split; [vm_compute; reflexivity|]. split; [vm_compute; reflexivity|].
  eexists. eexists. split; [reflexivity|]. split; [vm_compute; reflexivity|vm_compute; reflexivity].
Qed.
