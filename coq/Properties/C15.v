(* C15 — structures built from an error budget actually meet it. Statements only.
   The property is statistical over the hash function; no theorem about metro/murmur's
   distribution is possible. Decided here:
   (a) by proof over the reals (standard-library real-number axioms): the sizing formulas are
       the right ones — the Bloom parameters make the classical estimate equal the budget and
       rounding the size up only helps; the Count-Min dimensions give the two inequalities of the
       Markov/independence argument;
   (b) by proof on the executable model: the probe / row positions depend on the probe / row
       index, the concrete formulas stay in range, and the cuckoo fingerprint space is 10^fpl
       (decimal digits) although fpl is derived in bytes — REFUTING the budget for the accepted
       configuration (20, 4, 0.01) in the idealised model;
   (c) by correspondence: the code's sizing functions against 200-bit reference values and its
       probe / row / rank formulas against the Coq definitions, on random inputs;
   (d) a statistical acceptance test of the empirical rates (a test, labelled as such). *)
From GX.Model Require Import Base Bloom CMS Cuckoo.
From GX.Proofs Require Import ListLemmas BloomProofs CMSProofs RedisProofs SizingProofs.
From Coq Require Import Reals Lia.
Close Scope R_scope.
Open Scope N_scope.

(* (a) *)
Theorem C15_bloom_sizing : forall n p : R, (0 < n)%R -> (0 < p < 1)%R ->
  let m := (- n * ln p / (ln 2 * ln 2))%R in
  let k := ((m / n) * ln 2)%R in
  Rpower (1 - exp (- k * n / m))%R k = p.
Proof. exact bloom_sizing_identity. Qed.

Theorem C15_bloom_rounding_up_is_safe : forall n k m m' : R,
  (0 < n)%R -> (0 < k)%R -> (0 < m <= m')%R ->
  (1 - exp (- k * n / m') <= 1 - exp (- k * n / m))%R.
Proof. exact bloom_more_bits_lower_rate. Qed.

Theorem C15_cms_columns : forall eps cols T : R, (0 < eps)%R -> (0 <= T)%R -> (exp 1 / eps <= cols)%R ->
  (T / cols <= eps * T / exp 1)%R.
Proof. exact cms_columns_bound. Qed.

Theorem C15_cms_rows : forall delta rows : R, (0 < delta < 1)%R -> (ln (/ delta) <= rows)%R ->
  (exp (- rows) <= delta)%R.
Proof. exact cms_rows_bound. Qed.

(* (b) *)
Theorem C15_probe_depends_on_i : exists size h, bloom_index size h 0 <> bloom_index size h 1.
Proof. exists 10, (0, 1). vm_compute. discriminate. Qed.

Theorem C15_row_depends_on_r : exists cols h, cms_pos1 cols h 0 <> cms_pos1 cols h 1.
Proof. exists 10, (0, 1). vm_compute. discriminate. Qed.

Theorem C15_probes_in_range : forall metro size k x p,
  0 < size -> In p (bpos_metro metro size k x) -> p < size.
Proof. intros metro size k x p H. exact (bpos_metro_lt metro size k x p H). Qed.

Theorem C15_rows_in_range : forall metro rows cols x p,
  0 < cols -> In p (cpos_metro metro rows cols x) -> p < cols.
Proof. intros metro rows cols x p H. exact (cpos_metro_lt metro rows cols x p H). Qed.

(* cuckoo fingerprints are prefixes of a decimal string: at most fpl decimal digits *)
Theorem C15_cuckoo_fp_space : forall h fpl,
  Forall (fun c => 48 <= c <= 57) (firstn fpl (dec h)) /\ (length (firstn fpl (dec h)) <= fpl)%nat.
Proof.
  intros h fpl. split.
  - pose proof (dec_digits h) as H. rewrite Forall_forall in *. intros c Hc. apply H.
    rewrite <- (firstn_skipn fpl (dec h)). apply in_or_app. now left.
  - apply firstn_le_length.
Qed.

(* REFUTED (idealised): size 20, bucket size 4, budget 0.01 gives fingerprint length 2, i.e. 100
   possible fingerprints; with 2*4 candidate slots the idealised rate 1 - (1 - 1/100)^8 is
   above the budget: (100^8 - 99^8) * 100 > 100^8 *)
Theorem C15_cuckoo_idealised_refuted : 100 ^ 8 < (100 ^ 8 - 99 ^ 8) * 100.
Proof. vm_compute. reflexivity. Qed.

Print Assumptions C15_bloom_sizing.
Print Assumptions C15_bloom_rounding_up_is_safe.
Print Assumptions C15_cms_columns.
Print Assumptions C15_cms_rows.
Print Assumptions C15_probe_depends_on_i.
Print Assumptions C15_probes_in_range.
Print Assumptions C15_cuckoo_fp_space.
Print Assumptions C15_cuckoo_idealised_refuted.
