(* C03 — Count-Min estimate never under-counts and is bounded by the stream total.
   Statements only; every proof is `exact <lemma>` into Proofs/. *)
From GX.Model Require Import Base CMS.
From GX.Model Require Import Redis RedisCMS.
From GX.Proofs Require Import ListLemmas CMSProofs CMSApi RedisCMSRefine.
From GX.Proofs Require Import NonVacuity.

(* In-memory variant, for every position function with in-range results (hence every hash),
   every rows >= 1, columns >= 1 (the constructor rejects 0), every update history whose total
   stays below 2^64 (uint64 counters), every query element. *)
Section Mem.
Variable cpos : N -> N -> bytes -> list N.
Variable rows cols : N.
Hypothesis cpos_len : forall x, length (cpos rows cols x) = N.to_nat rows.
Hypothesis cpos_lt : forall x p, In p (cpos rows cols x) -> p < cols.

Theorem C03_mem_bounds : forall s0 h x,
  cms_new rows cols = Ok s0 -> total h < two64 ->
  true_count h x <= cms_count cpos (run_hist cpos s0 h) x /\
  cms_count cpos (run_hist cpos s0 h) x <= total h.
Proof. exact (api_bounds cpos rows cols cpos_len cpos_lt). Qed.

Theorem C03_mem_exact_single : forall s0 h x,
  cms_new rows cols = Ok s0 -> total h < two64 -> only_elem h x ->
  cms_count cpos (run_hist cpos s0 h) x = true_count h x.
Proof. exact (api_exact_single cpos rows cols cpos_len cpos_lt). Qed.

Theorem C03_mem_empty : forall s0 x, cms_new rows cols = Ok s0 -> cms_count cpos s0 x = 0.
Proof. exact (api_empty cpos rows cols cpos_len cpos_lt). Qed.
End Mem.

(* Redis-backed variant, through the refinement of Proofs/RedisCMSRefine.v: from a new sketch
   (any base key), after any update history whose total stays below 2^53 (where Lua's double
   arithmetic is exact), the store represents exactly the in-memory matrix, Count (the Lua minimum
   script over LINDEX replies) returns exactly the in-memory estimate, hence never under-counts
   and never exceeds the stream total. Every script run succeeds. *)
Section Redis.
Variable cpos : N -> N -> bytes -> list N.
Variable rows cols : N.
Hypothesis cpos_len : forall x, length (cpos rows cols x) = N.to_nat rows.
Hypothesis cpos_lt : forall x p, In p (cpos rows cols x) -> p < cols.

Theorem C03_redis_bounds : forall s key meta h0 s1 m0 hist x,
  rcms_new s rows cols key meta = (Ok h0, s1) -> cms_new rows cols = Ok m0 -> total hist < B53 ->
  exists s' h', rrun cpos s1 h0 hist = (Ok h', s') /\
    rcms_count cpos s' h' x = Ok (cms_count cpos (run_hist cpos m0 hist) x) /\
    true_count hist x <= cms_count cpos (run_hist cpos m0 hist) x <= total hist.
Proof. exact (redis_count_bounds_new cpos rows cols cpos_len cpos_lt). Qed.
End Redis.

(* REFUTED beyond 2^53 for the Redis variant (recorded finding): the cells are Lua doubles, so
   Update(x, 2^53); Update(x, 1) leaves 2^53 in the cell and Count(x) under-counts by one *)
Theorem C03_redis_refuted_beyond_2p53 :
  let cpos := fun (_ _ : N) (_ : bytes) => [0] in
  exists h0 s0 h1 s1 h2 s2,
    rcms_new [] 1 1 [107] [109] = (Ok h0, s0) /\
    rcms_update cpos s0 h0 [97] (2 ^ 53) = (Ok h1, s1) /\
    rcms_update cpos s1 h1 [97] 1 = (Ok h2, s2) /\
    rcms_count cpos s2 h2 [97] = Ok (2 ^ 53) /\
    true_count [([97], 2 ^ 53); ([97], 1)] [97] = 2 ^ 53 + 1.
Proof. cbv zeta. do 6 eexists. repeat split; vm_compute; reflexivity. Qed.

(* the position formula of the code satisfies the hypotheses, for every metro hash *)
Theorem C03_code_positions_wf : forall metro rows cols x,
  length (cpos_metro metro rows cols x) = N.to_nat rows /\
  (0 < cols -> forall p, In p (cpos_metro metro rows cols x) -> p < cols).
Proof.
  intros metro rows cols x. split.
  - exact (cpos_metro_len metro rows cols x).
  - intros H p. exact (cpos_metro_lt metro rows cols x p H).
Qed.

(* zero rows or columns are rejected by the constructor *)
Theorem C03_ctor_rejects_zero : forall rows cols,
  rows = 0 \/ cols = 0 -> cms_new rows cols = Err E_GENERIC.
Proof. intros rows cols [-> | ->]; unfold cms_new; [reflexivity|]. now rewrite orb_true_r. Qed.

(* non-vacuity: a concrete 1x1 and a 2x3 sketch satisfy the premises *)
Example C03_premises_hold : exists s0, cms_new 2 3 = Ok s0 /\ total [([1], 5); ([2], 7)] < two64.
Proof. eexists; split; [reflexivity|]. vm_compute. reflexivity. Qed.

(* the refinement's premise is met by a concrete Redis sketch (new, then one update of 5) *)
Example C03_redis_premises_hold : exists s h m, refines 2 3 s h m /\ cms_count cpos1 m [7] = 5.
Proof. exact refines_inhabited. Qed.

Print Assumptions C03_mem_bounds.
Print Assumptions C03_mem_exact_single.
Print Assumptions C03_mem_empty.
Print Assumptions C03_code_positions_wf.
Print Assumptions C03_ctor_rejects_zero.
Print Assumptions C03_redis_bounds.
Print Assumptions C03_redis_refuted_beyond_2p53.

(* Redis, remaining clauses: exactly the true count while one distinct element was updated, and 0
   for every element of a new sketch *)
From GX.Proofs Require RedisCMSMerge.
Theorem C03_redis_exact_single : forall (cpos : N -> N -> bytes -> list N) rows cols,
  (forall x, length (cpos rows cols x) = N.to_nat rows) ->
  (forall x p, In p (cpos rows cols x) -> p < cols) ->
  forall s key meta h0 s1 m0 hist x,
  rcms_new s rows cols key meta = (Ok h0, s1) -> cms_new rows cols = Ok m0 -> total hist < B53 ->
  only_elem hist x ->
  exists s' h', rrun cpos s1 h0 hist = (Ok h', s') /\ rcms_count cpos s' h' x = Ok (true_count hist x).
Proof. exact RedisCMSMerge.redis_count_exact_single. Qed.
Print Assumptions C03_redis_exact_single.
Theorem C03_redis_empty : forall (cpos : N -> N -> bytes -> list N) rows cols,
  (forall x, length (cpos rows cols x) = N.to_nat rows) ->
  (forall x p, In p (cpos rows cols x) -> p < cols) ->
  forall s key meta h0 s1 m0 x,
  rcms_new s rows cols key meta = (Ok h0, s1) -> cms_new rows cols = Ok m0 ->
  rcms_count cpos s1 h0 x = Ok 0.
Proof. exact RedisCMSMerge.redis_count_empty. Qed.
Print Assumptions C03_redis_empty.
