(* C03 — Count-Min estimate never under-counts and is bounded by the stream total.
   Statements only; every proof is `exact <lemma>` into Proofs/. *)
From GX.Model Require Import Base CMS.
From GX.Proofs Require Import ListLemmas CMSProofs CMSApi.

(* In-memory variant, for every position function with in-range results (hence every hash),
   every rows >= 1, columns >= 1 (the constructor rejects 0), every update history whose total
   stays below 2^64 (uint64 counters), every query element. *)
Section Mem.
Variable cpos : N -> N -> bytes -> list N.
Variable rows cols : N.
Hypothesis cpos_len : forall x, length (cpos rows cols x) = N.to_nat rows.
Hypothesis cpos_lt : forall x p, In p (cpos rows cols x) -> p < cols.

Theorem C03_mem_bounds : forall s0 h x,
  cms_new rows cols = Ok s0 -> total h < two64 ->
  true_count h x <= cms_count cpos (run_hist cpos s0 h) x /\
  cms_count cpos (run_hist cpos s0 h) x <= total h.
Proof. exact (api_bounds cpos rows cols cpos_len cpos_lt). Qed.

Theorem C03_mem_exact_single : forall s0 h x,
  cms_new rows cols = Ok s0 -> total h < two64 -> only_elem h x ->
  cms_count cpos (run_hist cpos s0 h) x = true_count h x.
Proof. exact (api_exact_single cpos rows cols cpos_len cpos_lt). Qed.

Theorem C03_mem_empty : forall s0 x, cms_new rows cols = Ok s0 -> cms_count cpos s0 x = 0.
Proof. exact (api_empty cpos rows cols cpos_len cpos_lt). Qed.
End Mem.

(* the position formula of the code satisfies the hypotheses, for every metro hash *)
Theorem C03_code_positions_wf : forall metro rows cols x,
  length (cpos_metro metro rows cols x) = N.to_nat rows /\
  (0 < cols -> forall p, In p (cpos_metro metro rows cols x) -> p < cols).
Proof.
  intros metro rows cols x. split.
  - exact (cpos_metro_len metro rows cols x).
  - intros H p. exact (cpos_metro_lt metro rows cols x p H).
Qed.

(* zero rows or columns are rejected by the constructor *)
Theorem C03_ctor_rejects_zero : forall rows cols,
  rows = 0 \/ cols = 0 -> cms_new rows cols = Err E_GENERIC.
Proof. intros rows cols [-> | ->]; unfold cms_new; [reflexivity|]. now rewrite orb_true_r. Qed.

(* non-vacuity: a concrete 1x1 and a 2x3 sketch satisfy the premises *)
Example C03_premises_hold : exists s0, cms_new 2 3 = Ok s0 /\ total [([1], 5); ([2], 7)] < two64.
Proof. eexists; split; [reflexivity|]. vm_compute. reflexivity. Qed.

Print Assumptions C03_mem_bounds.
Print Assumptions C03_mem_exact_single.
Print Assumptions C03_mem_empty.
Print Assumptions C03_code_positions_wf.
Print Assumptions C03_ctor_rejects_zero.
