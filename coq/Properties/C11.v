(* C11 — binary WriteTo/ReadFrom round-trips every state with exact byte counts.
   Statements only. For each in-memory structure X and every well-formed state s (fields fit
   uint64, array shapes match the header — preserved by every operation, checked by the
   correspondence), every `rest` that follows in the stream:
       decode_X (encode_X s ++ rest) = (s, |encode_X s|, rest)
   and WriteTo's returned count = |encode_X s|. Hence ReadFrom consumes exactly the writer's
   bytes, returns that count, reconstructs the identical state (so Equals and every query
   agree), and structures written back to back decode one after the other.
   Proved: Count-Min, HyperLogLog, bucket + cuckoo filter, Top-K with a full heap, and the Bloom
   filter including the bit packing of the third-party bitset (bit i lives in word i/64 at
   position i mod 64; any bit list of any length comes back exactly).
   REFUTED: Top-K with fewer than k tracked elements (WriteTo panics; known finding). *)
From GX.Model Require Import Base CMS Bloom HLL Cuckoo Heap TopK Codec.
From GX.Proofs Require Import ListLemmas CodecProofs BloomCodec.

Theorem C11_cms_roundtrip : forall s rest, cms_wf s ->
  exists img, enc_cms s = Ok img /\ dec_cms (img ++ rest) = Ok (s, N.of_nat (length img), rest) /\
              cms_write_ret s = N.of_nat (length img).
Proof. exact cms_roundtrip. Qed.

Theorem C11_hll_roundtrip : forall h rest, hll_cwf h ->
  dec_hll (enc_hll h ++ rest) = Ok (h, N.of_nat (length (enc_hll h)), rest) /\
  hll_write_ret h = N.of_nat (length (enc_hll h)).
Proof. exact hll_roundtrip. Qed.

Theorem C11_cuckoo_roundtrip : forall f rest, cuckoo_cwf f ->
  exists img, enc_cuckoo f = Ok img /\ dec_cuckoo (img ++ rest) = Ok (f, N.of_nat (length img), rest) /\
              cuckoo_write_ret f = N.of_nat (length img).
Proof. exact cuckoo_roundtrip. Qed.

Theorem C11_topk_roundtrip_full_heap : forall p t rest, topk_cwf p t ->
  exists img, enc_topk p t = Ok img /\
              dec_topk (img ++ rest) = Ok (p, t, N.of_nat (length img), rest) /\
              topk_write_ret t = N.of_nat (length img).
Proof. exact topk_roundtrip. Qed.

Theorem C11_topk_partial_heap_refuted : forall p t,
  (exists sk, enc_cms (t_sketch t) = Ok sk) -> (length (t_heap t) < N.to_nat (t_k t))%nat ->
  enc_topk p t = Panic P_INDEX.
Proof. exact topk_partial_heap_panics. Qed.

(* back to back: two images in one stream decode to the two states, nothing left over *)
Theorem C11_concat_cms_hll : forall s h, cms_wf s -> hll_cwf h ->
  exists img, enc_cms s = Ok img /\
    match dec_cms (img ++ enc_hll h) with
    | Ok (s', _, rest) => s' = s /\ dec_hll rest = Ok (h, N.of_nat (length (enc_hll h)), [])
    | _ => False
    end.
Proof.
  intros s h Hs Hh. destruct (cms_roundtrip s (enc_hll h) Hs) as (img & E & D & _).
  exists img. split; [exact E|]. rewrite D. split; [reflexivity|].
  pose proof (proj1 (hll_roundtrip h [] Hh)) as H. now rewrite app_nil_r in H.
Qed.

Example C11_premises_hold : cms_wf (mkCms 2 2 5 [[1; 2]; [3; 4]]).
Proof. unfold cms_wf, small64, two64; cbn. repeat split; try reflexivity; repeat constructor. Qed.

Theorem C11_bloom_roundtrip : forall f rest, bloom_cwf f ->
  dec_bloom (enc_bloom f ++ rest) = Ok (f, bloom_write_ret f, rest) /\
  bloom_write_ret f = N.of_nat (length (enc_bloom f)).
Proof. exact bloom_roundtrip. Qed.

(* the bitset alone: every bit list, of every length below 2^64 *)
Theorem C11_bitset_roundtrip : forall bits rest, N.of_nat (length bits) < two64 ->
  dec_bitset (enc_bitset bits ++ rest) = Ok (bits, 8 + 8 * words_needed (N.of_nat (length bits)), rest).
Proof. exact bitset_roundtrip. Qed.

(* non-vacuity: a 70-bit filter (two words, the second partially used) *)
Example C11_bloom_premises_hold :
  bloom_cwf (mkBloom 70 3 70 (repeat true 3 ++ repeat false 60 ++ repeat true 7)).
Proof. unfold bloom_cwf; simpl. repeat split; reflexivity. Qed.

Print Assumptions C11_cms_roundtrip.
Print Assumptions C11_hll_roundtrip.
Print Assumptions C11_cuckoo_roundtrip.
Print Assumptions C11_topk_roundtrip_full_heap.
Print Assumptions C11_topk_partial_heap_refuted.
Print Assumptions C11_concat_cms_hll.
Print Assumptions C11_bloom_roundtrip.
Print Assumptions C11_bitset_roundtrip.

(* several structures of ANY of the five kinds, written back to back into one stream, are read back
   in order as the same structures, each reader consuming exactly what its writer wrote (the Top-K
   items with a full heap, as above) *)
From GX.Proofs Require CodecSeq.
Theorem C11_back_to_back : forall (l : list CodecSeq.item) rest, Forall CodecSeq.item_wf l ->
  exists img, CodecSeq.enc_seq l = Ok img /\
              CodecSeq.dec_seq (map CodecSeq.kind_of l) (img ++ rest) = Ok (l, rest).
Proof. exact CodecSeq.seq_roundtrip. Qed.
Print Assumptions C11_back_to_back.

(* non-vacuity of C11_back_to_back: a stream of two Count-Min sketches, evaluated *)
Example C11_back_to_back_premises_hold :
  Forall CodecSeq.item_wf [CodecSeq.ICms (mkCms 2 2 5 [[1; 2]; [3; 4]]); CodecSeq.ICms (mkCms 2 2 5 [[1; 2]; [3; 4]])] /\
  match CodecSeq.enc_seq [CodecSeq.ICms (mkCms 2 2 5 [[1; 2]; [3; 4]]); CodecSeq.ICms (mkCms 2 2 5 [[1; 2]; [3; 4]])] with
  | Ok img => length img = 112%nat /\
              CodecSeq.dec_seq [CodecSeq.KCms; CodecSeq.KCms] (img ++ [9; 9]) =
                Ok ([CodecSeq.ICms (mkCms 2 2 5 [[1; 2]; [3; 4]]); CodecSeq.ICms (mkCms 2 2 5 [[1; 2]; [3; 4]])], [9; 9])
  | _ => False
  end.
Proof.
  split; [repeat constructor; exact C11_premises_hold|]. vm_compute. split; reflexivity.
Qed.
