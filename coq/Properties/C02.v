(* C02 — Cuckoo filter never loses a live element. Statements only.
   Full statement (kept visible): for every configuration, hash, history of Insert/Remove/Lookup
   removing only live elements and every outcome of the random eviction choices, each element
   inserted successfully more often than removed looks up true, and an Insert that returns
   normally has stored the fingerprint.
   The model (the code after the repair "fixed: property=C02 ... eviction loop") still REFUTES
   it in two ways, each with a witness below that is replayed on the implementation as a known
   finding: (b) the alternate-bucket map is an involution only for power-of-two bucket counts;
   (c) elements whose decimal hash is shorter than the fingerprint length (murmur3("") = 0)
   get the empty fingerprint, which is never stored while Insert returns true.
   Proved: the involution for power-of-two sizes, Remove/Lookup agreement, and the concrete
   murmur3 model's agreement is checked by correspondence. *)
From GX.Model Require Import Base Murmur Cuckoo Redis RedisCMS RedisCuckoo.
From GX.Proofs Require Import ListLemmas CuckooProofs CuckooInv CuckooLive RedisCuckooInv RedisCuckooLive.
From Coq Require Import ZArith Permutation.

(* mechanism: alternate bucket computable from (bucket, fingerprint hash) is an involution for
   power-of-two sizes ... *)
Theorem C02_alt_involutive_pow2 : forall j b h, b < 2 ^ j -> alt (2 ^ j) (alt (2 ^ j) b h) h = b.
Proof. exact alt_involutive_pow2. Qed.
(* ... and not in general *)
Theorem C02_alt_not_involutive : exists size b h, b < size /\ alt size (alt size b h) h <> b.
Proof. exact alt_not_involutive. Qed.

(* Remove succeeds exactly when Lookup answers true, and a failed Remove changes nothing *)
Theorem C02_remove_iff_lookup : forall h64 f x,
  match ck_lookup h64 f x, ck_remove h64 f x with
  | Ok l, Ok (r, f') => l = r /\ (r = false -> f' = f)
  | Panic t, Panic t' => t = t'
  | Err t, Err t' => t = t'
  | _, _ => False
  end.
Proof. exact remove_iff_lookup. Qed.

(* "An Insert that returns normally has stored the element", and relocation never drops or
   duplicates an entry: after a successful insert (any flags, any random evictions) the multiset
   of slot contents is the old one with one empty slot replaced by the new fingerprint *)
Theorem C02_insert_stores_and_only_moves : forall h64 f x coin draws fp i1 i2 f',
  ck_positions h64 f x = Ok (fp, i1, i2) ->
  ck_insert h64 f x true coin draws = InsOk f' ->
  Permutation ([] :: all_slots f') (fp :: all_slots f).
Proof.
  intros h64 f x coin draws fp i1 i2 f' Hp Hi.
  pose proof (insert_conserves h64 f x coin draws fp i1 i2 Hp) as H. rewrite Hi in H. exact H.
Qed.

(* THE PROPERTY in the regime where the two refutations below do not apply - bucket count a power
   of two, elements with a non-empty fingerprint (fp_ok), non-destructive inserts, only live
   elements removed (the documented usage), random draws in Float64's range: for every hash,
   bucket size >= 1, fingerprint length, retry budget and EVERY history of Insert/Remove - with
   duplicates, evictions that relocate stored entries, failed inserts - every element in the
   multiset L of elements inserted successfully more often than removed is reported present.
   (lrun tracks L: +x for an Insert that returned, -x for a Remove that returned true.) *)
Theorem C02_live_elements_found_pow2 : forall h64 j bsize fpl retries ops,
  2 ^ j * bsize < two64 -> 1 <= bsize ->
  let f0 := ck_new (2 ^ j) bsize fpl retries in
  usage_ok h64 f0 [] ops ->
  forall x, In x (snd (lrun h64 f0 [] ops)) -> ck_lookup h64 (fst (lrun h64 f0 [] ops)) x = Ok true.
Proof. exact new_filter_live_elements_found. Qed.

(* the same from any state satisfying the invariant (slot counts + classes of stored entries =
   classes of the live multiset) *)
Theorem C02_live_elements_found_inductive : forall h64 j ops f L,
  LInv h64 j f L -> usage_ok h64 f L ops ->
  LInv h64 j (fst (lrun h64 f L ops)) (snd (lrun h64 f L ops)) /\
  forall x, In x (snd (lrun h64 f L ops)) -> ck_lookup h64 (fst (lrun h64 f L ops)) x = Ok true.
Proof. intros. split; [apply (lrun_inv h64 j); assumption|apply (live_elements_found h64 j); assumption]. Qed.

(* non-vacuity: a history on the murmur3 model (4 buckets of 1 slot, so the third and fourth
   inserts evict and relocate) meets usage_ok and ends with three live elements *)
Definition c02_ops : list lop :=
  [LIns [97] true []; LIns [98] true []; LIns [99] false [0]; LIns [100] true [0; 0];
   LRem [97]; LIns [97] true [0]; LIns [101] true [0; 0; 0]; LRem [98]].
Example C02_usage_satisfiable :
  usage_ok murmur64 (ck_new (2 ^ 2) 1 2 3) [] c02_ops /\
  snd (lrun murmur64 (ck_new (2 ^ 2) 1 2 3) [] c02_ops) = [[97]; [100]; [99]].
Proof.
  split; [apply usage_okb_sound; vm_compute; reflexivity|vm_compute; reflexivity].
Qed.

(* ---------- Redis-backed variant, on the Redis model (bucket lists, counters, metadata hash) ----------
   Same regime: 2^jj buckets, non-empty fingerprints, non-destructive inserts, only live elements
   removed, draws in Float64's range. RLI s L: the store satisfies the accounting invariant of C13
   and the classes of its stored entries are those of the live multiset L. *)
Section Redis.
Variable key meta : bytes.
Variable jj bsize fpl retries : N.
Variable h64 : bytes -> N.
Hypothesis meta_not_bucket : forall i, meta <> bucket_key key i.
Hypothesis meta_not_len : forall i, meta <> len_key (bucket_key key i).
Hypothesis bsize_pos : 1 <= bsize.
Hypothesis bsize_small : bsize < 2 ^ 62.

Theorem C02_redis_live_elements_found : forall ops s L,
  RLI key meta jj bsize fpl retries h64 s L -> rusage_ok key meta jj bsize fpl retries h64 s L ops ->
  forall x, In x (snd (rlrun key meta jj bsize fpl retries h64 s L ops)) ->
    rck_lookup h64 (fst (rlrun key meta jj bsize fpl retries h64 s L ops)) (hdl key meta (2 ^ jj) bsize fpl retries) x = Ok true.
Proof. exact (redis_live_elements_found key meta jj bsize fpl retries h64 meta_not_bucket meta_not_len bsize_pos bsize_small). Qed.

(* a new filter whose keys are fresh satisfies RLI with no live elements *)
Theorem C02_redis_new : forall s, meta <> key ->
  (forall i, i < 2 ^ jj -> sget s (bucket_key key i) = None /\ sget s (len_key (bucket_key key i)) = None) ->
  RLI key meta jj bsize fpl retries h64 (snd (rck_new s (2 ^ jj) bsize fpl retries key meta)) [].
Proof. exact (redis_new_RLI key meta jj bsize fpl retries h64 meta_not_bucket meta_not_len bsize_pos bsize_small). Qed.
End Redis.

(* witness histories on the concrete murmur3 model *)
Inductive wop := WIns (x : bytes) (coin : bool) (draws : list N) | WRem (x : bytes).
Fixpoint wrun (f : cuckoo) (ops : list wop) : option cuckoo :=
  match ops with
  | [] => Some f
  | WIns x coin draws :: t =>
      match ck_insert murmur64 f x false coin draws with InsOk f' => wrun f' t | _ => None end
  | WRem x :: t =>
      match ck_remove murmur64 f x with Ok (true, f') => wrun f' t | _ => None end
  end.
Fixpoint live (ops : list wop) (x : bytes) : Z :=
  match ops with
  | [] => 0%Z
  | WIns y _ _ :: t => ((if bytes_eqb y x then 1%Z else 0%Z) + live t x)%Z
  | WRem y :: t => ((if bytes_eqb y x then (-1)%Z else 0%Z) + live t x)%Z
  end.

Definition wA : bytes := [112;117;100;107;102;98;112;107;109;106;110].
Definition wB : bytes := [109;109;106;112;122;118;110;99;103;109;121;105;119;99;114;115].
Definition w_ops : list wop :=
  [WIns wA false []; WIns wA false []; WIns [6] true []; WRem wA; WIns wB true [];
   WIns [6] false [4225140133038315; 5209690058668498; 4621433450554345; 6133960370661316; 8863835556577634]].

(* REFUTED (b): 20 buckets (not a power of two), one slot each; every insert and every remove
   succeeds, wA was inserted twice and removed once, yet it is reported absent *)
Theorem C02_refuted_non_pow2 : exists f,
  wrun (ck_new 20 1 2 5) w_ops = Some f /\ (live w_ops wA = 1)%Z /\
  ck_lookup murmur64 f wA = Ok false.
Proof. eexists. split; [vm_compute; reflexivity|]. split; vm_compute; reflexivity. Qed.

(* REFUTED (c): the empty element into a default-style filter (fingerprint length 2):
   Insert returns true, Length grows, nothing is stored *)
Theorem C02_refuted_empty_fingerprint : exists f,
  ck_insert murmur64 (ck_new 8 2 2 50) [] false true [] = InsOk f /\
  q_buckets f = q_buckets (ck_new 8 2 2 50) /\ q_len f = 1 /\ murmur64 [] = 0.
Proof. eexists. split; [vm_compute; reflexivity|]. repeat split. Qed.

Print Assumptions C02_alt_involutive_pow2.
Print Assumptions C02_alt_not_involutive.
Print Assumptions C02_remove_iff_lookup.
Print Assumptions C02_refuted_non_pow2.
Print Assumptions C02_refuted_empty_fingerprint.
Print Assumptions C02_insert_stores_and_only_moves.
Print Assumptions C02_live_elements_found_pow2.
Print Assumptions C02_live_elements_found_inductive.
Print Assumptions C02_redis_live_elements_found.
Print Assumptions C02_redis_new.
