(* C09 — a Redis-backed structure can be re-attached and shared through its key.
   Statements only. Proved for the Redis-backed Count-Min sketch (the pattern every structure
   follows): the constructor writes a metadata hash from which attach rebuilds exactly the
   immutable handle fields, and every query and update depends on those fields and the store
   only — so a second handle answers every query as the first one on every store, i.e. at any
   later time and after updates through either handle, in this or another process (the hash
   functions are fixed-seed functions; the harness re-checks that). For the other structures
   (and every constructor) the same is decided by correspondence: attach is part of each Redis
   model and the two handles' answers are compared after every step (partial). *)
From GX.Model Require Import Base Redis RedisCMS.
From GX.Proofs Require Import ListLemmas RedisProofs.

Theorem C09_cms_attach_rebuilds_handle : forall s rows cols key meta h s',
  rcms_new s rows cols key meta = (Ok h, s') -> (forall r, row_key key r <> meta) ->
  rcms_attach s' meta = Ok (mkRcms rows cols 0 key meta).
Proof. exact rcms_attach_after_new. Qed.

Theorem C09_cms_queries_depend_on_store_only : forall cpos s a b x,
  rc_rows a = rc_rows b -> rc_cols a = rc_cols b -> rc_key a = rc_key b ->
  rcms_count cpos s a x = rcms_count cpos s b x.
Proof. exact rcms_count_handle_irrelevant. Qed.

Theorem C09_cms_updates_depend_on_store_only : forall cpos s a b x c,
  rc_rows a = rc_rows b -> rc_cols a = rc_cols b -> rc_key a = rc_key b ->
  snd (rcms_update cpos s a x c) = snd (rcms_update cpos s b x c).
Proof. exact rcms_update_handle_irrelevant. Qed.

(* numbers written into the metadata hash are read back exactly *)
Theorem C09_decimal_roundtrip : forall n, undec (dec n) = Some n.
Proof. exact undec_dec. Qed.

Print Assumptions C09_cms_attach_rebuilds_handle.
Print Assumptions C09_cms_queries_depend_on_store_only.
Print Assumptions C09_cms_updates_depend_on_store_only.
Print Assumptions C09_decimal_roundtrip.
