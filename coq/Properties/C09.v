(* C09 — a Redis-backed structure can be re-attached and shared through its key.
   Statements only. Proved for the Redis-backed Count-Min sketch, HyperLogLog and cuckoo filter
   (the pattern every structure follows): the constructor writes a metadata hash from which attach rebuilds exactly the
   immutable handle fields, and every query and update depends on those fields and the store
   only — so a second handle answers every query as the first one on every store, i.e. at any
   later time and after updates through either handle, in this or another process (the hash
   functions are fixed-seed functions; the harness re-checks that). For Bloom and Top-K
   (and the other constructors) the same is decided by correspondence: attach is part of each Redis
   model and the two handles' answers are compared after every step (partial). *)
From GX.Model Require Import Base HLL Cuckoo Redis RedisCMS RedisHLL RedisCuckoo.
From GX.Proofs Require Import ListLemmas RedisProofs AttachProofs.

Theorem C09_cms_attach_rebuilds_handle : forall s rows cols key meta h s',
  rcms_new s rows cols key meta = (Ok h, s') -> (forall r, row_key key r <> meta) ->
  rcms_attach s' meta = Ok (mkRcms rows cols 0 key meta).
Proof. exact rcms_attach_after_new. Qed.

Theorem C09_cms_queries_depend_on_store_only : forall cpos s a b x,
  rc_rows a = rc_rows b -> rc_cols a = rc_cols b -> rc_key a = rc_key b ->
  rcms_count cpos s a x = rcms_count cpos s b x.
Proof. exact rcms_count_handle_irrelevant. Qed.

Theorem C09_cms_updates_depend_on_store_only : forall cpos s a b x c,
  rc_rows a = rc_rows b -> rc_cols a = rc_cols b -> rc_key a = rc_key b ->
  snd (rcms_update cpos s a x c) = snd (rcms_update cpos s b x c).
Proof. exact rcms_update_handle_irrelevant. Qed.

(* numbers written into the metadata hash are read back exactly *)
Theorem C09_decimal_roundtrip : forall n, undec (dec n) = Some n.
Proof. exact undec_dec. Qed.

(* HyperLogLog: FromKey rebuilds the constructor's handle (alpha is a function of m) *)
Theorem C09_hll_attach_rebuilds_handle : forall s m alpha key meta h s' alpha_of,
  rhll_new s m alpha key meta = (Ok h, s') -> key <> meta -> alpha_of m = alpha ->
  rhll_attach s' meta alpha_of = Ok h.
Proof. exact rhll_attach_after_new. Qed.
Theorem C09_hll_updates_depend_on_store_only : forall hic s a b x,
  rh_p a = rh_p b -> rh_key a = rh_key b -> rhll_update hic s a x = rhll_update hic s b x.
Proof. exact rhll_update_handle_irrelevant. Qed.
Theorem C09_hll_registers_depend_on_store_only : forall s a b,
  rh_m a = rh_m b -> rh_key a = rh_key b -> rhll_regs s a = rhll_regs s b.
Proof. exact rhll_regs_handle_irrelevant. Qed.

(* cuckoo filter: FromKey rebuilds the constructor's handle *)
Theorem C09_cuckoo_attach_rebuilds_handle : forall s size bsize fpl retries key meta,
  meta <> key -> (forall i, meta <> len_key (bucket_key key i)) ->
  fst (rck_attach (snd (rck_new s size bsize fpl retries key meta)) meta) =
  fst (rck_new s size bsize fpl retries key meta).
Proof. exact rck_attach_after_new. Qed.
Theorem C09_cuckoo_lookup_depends_on_store_only : forall h64 s a b x,
  rq_size a = rq_size b -> rq_bsize a = rq_bsize b -> rq_fpl a = rq_fpl b -> rq_retries a = rq_retries b ->
  rq_key a = rq_key b -> rck_lookup h64 s a x = rck_lookup h64 s b x.
Proof. exact rck_lookup_handle_irrelevant. Qed.

Print Assumptions C09_cms_attach_rebuilds_handle.
Print Assumptions C09_cms_queries_depend_on_store_only.
Print Assumptions C09_cms_updates_depend_on_store_only.
Print Assumptions C09_decimal_roundtrip.
Print Assumptions C09_hll_attach_rebuilds_handle.
Print Assumptions C09_cuckoo_attach_rebuilds_handle.
