(* C09 — a Redis-backed structure can be re-attached and shared through its key.
   Statements only. Proved for all five Redis-backed structures: the constructor writes a
   metadata hash from which attach rebuilds exactly the handle fields that updates and queries
   read, and every query and update depends on those fields and the store only — so a second
   handle answers every query as the first one on every store, i.e. at any later time and after
   updates through either handle, in this or another process (the hash functions are fixed-seed
   functions; the harness re-checks that). For Bloom the re-attached handle differs in one field,
   the cached bitset size (8x), which only Export reads: C09_bloom_export_differs_after_attach is
   the kernel-checked witness of that recorded finding. The remaining constructors (from a bitset,
   from imported documents) are decided by correspondence: attach is part of each Redis model and
   the two handles' answers are compared after every step. *)
From GX.Model Require Import Base HLL Cuckoo Redis RedisCMS RedisHLL RedisCuckoo RedisBloom Heap TopK RedisTopK.
From GX.Proofs Require Import ListLemmas RedisProofs AttachProofs AttachProofs2.

Theorem C09_cms_attach_rebuilds_handle : forall s rows cols key meta h s',
  rcms_new s rows cols key meta = (Ok h, s') -> (forall r, row_key key r <> meta) ->
  rcms_attach s' meta = Ok (mkRcms rows cols 0 key meta).
Proof. exact rcms_attach_after_new. Qed.

Theorem C09_cms_queries_depend_on_store_only : forall cpos s a b x,
  rc_rows a = rc_rows b -> rc_cols a = rc_cols b -> rc_key a = rc_key b ->
  rcms_count cpos s a x = rcms_count cpos s b x.
Proof. exact rcms_count_handle_irrelevant. Qed.

Theorem C09_cms_updates_depend_on_store_only : forall cpos s a b x c,
  rc_rows a = rc_rows b -> rc_cols a = rc_cols b -> rc_key a = rc_key b ->
  snd (rcms_update cpos s a x c) = snd (rcms_update cpos s b x c).
Proof. exact rcms_update_handle_irrelevant. Qed.

(* numbers written into the metadata hash are read back exactly *)
Theorem C09_decimal_roundtrip : forall n, undec (dec n) = Some n.
Proof. exact undec_dec. Qed.

(* HyperLogLog: FromKey rebuilds the constructor's handle (alpha is a function of m) *)
Theorem C09_hll_attach_rebuilds_handle : forall s m alpha key meta h s' alpha_of,
  rhll_new s m alpha key meta = (Ok h, s') -> key <> meta -> alpha_of m = alpha ->
  rhll_attach s' meta alpha_of = Ok h.
Proof. exact rhll_attach_after_new. Qed.
Theorem C09_hll_updates_depend_on_store_only : forall hic s a b x,
  rh_p a = rh_p b -> rh_key a = rh_key b -> rhll_update hic s a x = rhll_update hic s b x.
Proof. exact rhll_update_handle_irrelevant. Qed.
Theorem C09_hll_registers_depend_on_store_only : forall s a b,
  rh_m a = rh_m b -> rh_key a = rh_key b -> rhll_regs s a = rhll_regs s b.
Proof. exact rhll_regs_handle_irrelevant. Qed.

(* cuckoo filter: FromKey rebuilds the constructor's handle *)
Theorem C09_cuckoo_attach_rebuilds_handle : forall s size bsize fpl retries key meta,
  meta <> key -> (forall i, meta <> len_key (bucket_key key i)) ->
  fst (rck_attach (snd (rck_new s size bsize fpl retries key meta)) meta) =
  fst (rck_new s size bsize fpl retries key meta).
Proof. exact rck_attach_after_new. Qed.
Theorem C09_cuckoo_lookup_depends_on_store_only : forall h64 s a b x,
  rq_size a = rq_size b -> rq_bsize a = rq_bsize b -> rq_fpl a = rq_fpl b -> rq_retries a = rq_retries b ->
  rq_key a = rq_key b -> rck_lookup h64 s a x = rck_lookup h64 s b x.
Proof. exact rck_lookup_handle_irrelevant. Qed.

(* Bloom filter: FromKey rebuilds size, numHashes and the bitset key; its junk bitset lives elsewhere *)
Theorem C09_bloom_attach_rebuilds_handle : forall s size0 k0 key meta junk, meta <> key ->
  exists h',
    fst (rbloom_attach (snd (rbloom_new s size0 k0 key meta)) meta junk) = Ok h' /\
    (forall h, fst (rbloom_new s size0 k0 key meta) = Ok h -> bloom_fields_agree h h') /\
    rb_meta h' = meta /\ rb_bsize h' = (8 * size0)%N.
Proof. exact rbloom_attach_after_new. Qed.
Theorem C09_bloom_attach_changes_nothing_else : forall s meta junk k, k <> junk ->
  sget (snd (rbloom_attach s meta junk)) k = sget s k.
Proof. exact rbloom_attach_frame. Qed.
Theorem C09_bloom_lookup_depends_on_store_only : forall bpos s a b x, bloom_fields_agree a b ->
  rbloom_lookup bpos s a x = rbloom_lookup bpos s b x.
Proof. exact rbloom_lookup_handle_irrelevant. Qed.
Theorem C09_bloom_insert_depends_on_store_only : forall bpos s a b x, bloom_fields_agree a b ->
  rbloom_insert bpos s a x = rbloom_insert bpos s b x.
Proof. exact rbloom_insert_handle_irrelevant. Qed.
Theorem C09_bloom_export_differs_after_attach :
  exists s size0 k0 key meta junk h h',
    fst (rbloom_new s size0 k0 key meta) = Ok h /\
    fst (rbloom_attach (snd (rbloom_new s size0 k0 key meta)) meta junk) = Ok h' /\
    rbloom_image (snd (rbloom_new s size0 k0 key meta)) h <> rbloom_image (snd (rbloom_new s size0 k0 key meta)) h'.
Proof. exact rbloom_image_differs_after_attach. Qed.

(* Top-K: FromKey rebuilds k, the heap key and the sketch handle (the two rates are re-read from
   their decimal text; the harness checks that round trip) *)
Theorem C09_topk_attach_rebuilds_handle : forall s k rows cols er acc ertxt acctxt skey smeta hkey meta t s',
  rtopk_new s k rows cols er acc ertxt acctxt skey smeta hkey meta = (Ok t, s') ->
  meta <> smeta -> (forall r, row_key skey r <> smeta) -> (forall r, row_key skey r <> meta) ->
  rtopk_attach s' meta er acc = Ok t.
Proof. exact rtopk_attach_after_new. Qed.
Theorem C09_topk_values_depend_on_store_only : forall s a b, rt_heap a = rt_heap b -> rtopk_values s a = rtopk_values s b.
Proof. exact rtopk_values_handle_irrelevant. Qed.
Theorem C09_topk_inserts_depend_on_store_only : forall cpos s a b x c,
  rt_k a = rt_k b -> rt_heap a = rt_heap b ->
  rc_rows (rt_sketch a) = rc_rows (rt_sketch b) -> rc_cols (rt_sketch a) = rc_cols (rt_sketch b) ->
  rc_key (rt_sketch a) = rc_key (rt_sketch b) ->
  snd (rtopk_insert cpos s a x c) = snd (rtopk_insert cpos s b x c).
Proof. exact rtopk_insert_handle_irrelevant. Qed.

Print Assumptions C09_cms_attach_rebuilds_handle.
Print Assumptions C09_cms_queries_depend_on_store_only.
Print Assumptions C09_cms_updates_depend_on_store_only.
Print Assumptions C09_decimal_roundtrip.
Print Assumptions C09_hll_attach_rebuilds_handle.
Print Assumptions C09_cuckoo_attach_rebuilds_handle.
Print Assumptions C09_bloom_attach_rebuilds_handle.
Print Assumptions C09_bloom_export_differs_after_attach.
Print Assumptions C09_topk_attach_rebuilds_handle.
Print Assumptions C09_topk_inserts_depend_on_store_only.

From GX.Proofs Require Import NonVacuity.
(* C09: evaluated: create, update through the creating handle, re-attach through the metadata key:
   the same handle comes back and Count through it sees the update *)
Example C09_attach_evaluated :
  match rcms_new [] 2 3 k_a k_m with
  | (Ok h, s1) =>
      match rcms_update cpos1 s1 h [7] 5 with
      | (Ok h', s2) => rcms_attach s2 k_m = Ok (mkRcms 2 3 0 k_a k_m) /\
                       rcms_count cpos1 s2 (mkRcms 2 3 0 k_a k_m) [7] = Ok 5 /\
                       rcms_count cpos1 s2 h' [7] = Ok 5
      | _ => False
      end
  | _ => False
  end.
Proof. vm_compute. repeat split; reflexivity. Qed.
