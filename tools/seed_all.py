#!/usr/bin/env python3
"""seed_all.py [id-prefix ...] — (re)build /verif/seeded/<id>/ from the sub-agents' scratch worktrees and
record which registered checks catch each change.

For every entry of TABLE whose worktree still exists:
  1. confirm in the scratch worktree: demo passes on the clean checkout; with the change applied the
     library builds (with and without -tags verif), the pinned suite passes and the demo fails;
  2. apply the change to /repo's working tree (never committed), store `git diff` as patch.diff,
     run the listed checks (quick tier), record their VIOLATION lines, and restore /repo straight away;
  3. write meta.json.
Entries whose worktree is gone are only re-run (step 2, from the stored patch.diff) — see rerun_seeded.sh.
"""
import json, os, re, shutil, subprocess, sys

ENV = dict(os.environ, GOFLAGS="-mod=mod", GOPROXY="off", GOSUMDB="off", GOTOOLCHAIN="local")
V = "/verif"

# id, property, worktree, n, checks to run, summary, what it needs to manifest
TABLE = [
 ("C01-bitset-has-bounds-guard", "C01", "/tmp/wt-C01", 1, ["C01"],
  "BitSetMem.has returns false for index >= declared size; a filter built on a size-0 bitset (clamped to size 1) loses every insert.",
  "in-memory filter whose requested size is 0 (NewBloomFilterWithBitSet(0,..) / FromBitSet([]uint64{})); any element; Lookup right after Insert"),
 ("C01-lookupstring-32-byte-buffer", "C01", "/tmp/wt-C01", 2, ["C01"],
  "LookupString copies the key into a fixed 32-byte stack buffer, truncating longer keys before hashing.",
  "an element longer than 32 bytes looked up through LookupString (both backends); Lookup([]byte) is unaffected"),
 ("C03-rows-share-one-slice", "C03", "/tmp/wt-C03", 1, ["C03", "C12"],
  "NewCountMinSketch allocates one counter slice and stores it in every row.",
  "rows >= 2 and an element whose row positions coincide (columns = 1, or narrow sketch with many keys): Count exceeds the stream total / single-element count inexact"),
 ("C03-redis-count-32bit-sentinel", "C03", "/tmp/wt-C03", 2, ["C03"],
  "The Redis Count script starts its running minimum at 4294967295 instead of taking the first row.",
  "Redis backend, an element whose every cell holds more than 2^32-1: Count under-counts"),
 ("C04-values-sorts-live-heap", "C04", "/tmp/wt-C04", 1, ["C04"],
  "TopK.Values sorts t.heap through an alias, leaving the heap array in descending order after every read.",
  "Insert*; Values(); Insert*; Values() with a full heap holding two different counts and a later element between min and max"),
 ("C04-indexof-frequency-prefilter", "C04", "/tmp/wt-C04", 2, ["C04"],
  "minHeap.IndexOf only matches an entry whose stored count equals the element's previous estimate.",
  "colliding sketch: Insert(x); Insert(y sharing x's minimum cells); Insert(x) -> x tracked twice"),
 ("C06-redis-merge-string-compare", "C06", "/tmp/wt-C06", 1, ["C06"],
  "The Redis merge script compares register values as strings (lexicographic) instead of numbers.",
  "two Redis sketches holding, in one register, values with different digit counts where the smaller has the larger leading digit (4 vs 175)"),
 ("C06-mem-merge-skips-last-register", "C06", "/tmp/wt-C06", 2, ["C06"],
  "In-memory Merge ranges over registers[1:] by index, so the last register is never merged.",
  "the other sketch holds a larger value in the LAST register (hit with probability 2^-(m-1)); needs small m"),
 ("C10-cuckoo-import-occupancy-bound", "C10", "/tmp/wt-C10", 1, ["C10"],
  "CuckooFilter.Import bounds the slot loop by the exported bucket occupancy instead of the bucket capacity.",
  "a bucket with a hole below an occupied slot at export time (bucketSize >= 2, remove an earlier entry), then Export -> Import"),
 ("C10-hll-import-drops-parameter", "C10", "/tmp/wt-C10", 2, ["C10"],
  "HyperLogLog.Import copies the registers into the receiver's existing buffer and never shrinks it to the imported register count.",
  "import a small sketch into an instance that previously had MORE registers (512 -> 128): Count sums over the stale tail while Equals says true"),
 ("C11-bucket-writeto-occupied-prefix", "C11", "/tmp/wt-C11", 1, ["C11", "C18"],
  "BucketMem.writeTo writes only the first `length` slots.",
  "a bucket whose occupied slots are not a prefix (after a Remove), then WriteTo -> ReadFrom"),
 ("C11-cuckoo-readfrom-bufio", "C11", "/tmp/wt-C11", 2, ["C11"],
  "CuckooFilter.ReadFrom wraps the stream in a bufio.Reader, consuming more bytes than the writer produced.",
  "several structures written back to back on one stream, or comparing ReadFrom's count with bytes consumed"),
 ("C13-bucket-add-at-length", "C13", "/tmp/wt-C13", 1, ["C13", "C02", "C14"],
  "BucketMem.add stores the new fingerprint at slot `length` instead of the next free slot.",
  "in-memory bucket with a hole below an occupied slot (insert a, insert b, remove a, insert c): c overwrites b"),
 ("C13-redis-remove-second-bucket", "C13", "/tmp/wt-C13", 2, ["C13", "C02"],
  "CuckooFilterRedis.Remove removes from the FIRST bucket in the branch where the fingerprint was found in the second one: nothing is removed, Length is decremented, true is returned.",
  "Redis backend, an element stored in its alternate bucket (first bucket full at insert time), then Remove"),
 ("C16-hll-redis-read-modify-write", "C16", "/tmp/wt-C16", 1, ["C16"],
  "HyperLogLogRedis.updateRegisters reads the register and writes the maximum back in two separate commands.",
  "two clients updating the same register concurrently with an interleaving between read and write"),
 ("C16-bucket-redis-add-split", "C16", "/tmp/wt-C16", 2, ["C16"],
  "BucketRedis.add performs its capacity test and the push in separate round trips.",
  "two clients inserting into the same bucket with one free slot, interleaved at Redis-command granularity"),
 ("C17-bucket-equals-occupied-prefix", "C17", "/tmp/wt-C17", 1, ["C17"],
  "BucketMem.equals compares only the first `length` slots.",
  "two in-memory cuckoo filters with equal lengths whose buckets differ beyond the occupied-prefix index (holes after removes)"),
 ("C17-hll-redis-compare-concat", "C17", "/tmp/wt-C17", 2, ["C17"],
  "The Redis HLL compare script compares table.concat of the register lists.",
  "two Redis sketches whose register lists differ but concatenate to the same digit string (1,23 vs 12,3)"),
 ("C19-cuckoo-import-keeps-metadata-key", "C19", "/tmp/wt-C19", 1, ["C19", "C09", "C10"],
  "CuckooFilterRedis.Import with new keys regenerates only the data key; the copy writes its metadata under the exporter's metadata key.",
  "Redis backend: Export, Import(withNewRedisKey=true) into another filter, update the copy, then look at (or re-attach) the exporter"),
 ("C19-cms-import-stores-exported-key", "C19", "/tmp/wt-C19", 2, ["C19", "C09"],
  "CountMinSketchRedis.Import stores the exported key (not the new one) in the metadata hash.",
  "Redis backend: import under new keys, then re-attach through the copy's metadata key: the handle binds to the exporter's rows"),
 ("C02-bucket-add-at-length", "C02", "/tmp/wt2-C02", 1, ["C02", "C13"],
  "BucketMem.add writes the new fingerprint at index `length` instead of the first empty slot (same idea as C13-bucket-add-at-length, found independently).",
  "Insert(a), Insert(b) into one bucket, Remove(a), Insert(c): c overwrites b, Lookup(b) false while b is live"),
 ("C02-redis-evict-drops-carry", "C02", "/tmp/wt2-C02", 2, ["C02", "C13", "C08"],
  "The Redis eviction loop no longer carries the displaced fingerprint into the next hop (currFingerPrint = prevFingerPrint dropped).",
  "Redis backend, a relocation chain of two or more hops: the entry evicted in hop 1 is lost"),
 ("C05-redis-update-string-max", "C05", "/tmp/wt2-C05", 1, ["C05", "C06", "C08"],
  "The Redis updateRegisters script compares stored and new register values as strings.",
  "two distinct elements routed to the same register whose numeric and lexicographic orders disagree (3 vs 132)"),
 ("C05-mem-update-untruncated-compare", "C05", "/tmp/wt2-C05", 2, ["C05", "C06", "C08"],
  "HyperLogLog.Update takes the max against the untruncated count, so the register holds the last written byte rather than the running maximum.",
  "a second element on an already written register with a smaller byte value; estimate drops, state depends on order"),
 ("C07-topk-insert-sketch-outside-lock", "C07", "/tmp/wt2-C07", 1, ["C07"],
  "TopK.Insert updates and reads the sketch before taking t.lock; only the heap update is locked (no data race, but a stale frequency can overwrite a newer heap entry).",
  "two or more goroutines inserting the same key, heap not full or hot key not the minimum; k=1 hides it"),
 ("C07-cuckoo-remove-unlocked-fast-path", "C07", "/tmp/wt2-C07", 2, ["C07"],
  "CuckooFilter.Remove answers through an unlocked-gap Lookup fast path and then decrements without re-checking.",
  "two concurrent Remove calls on a key stored once: both return true, length drops by two; sequentially identical to the original"),
 ("C08-redis-count-string-min", "C08", "/tmp/wt2-C08", 1, ["C08", "C03"],
  "The Redis Count script takes the row minimum by string comparison (tonumber dropped).",
  "a key whose cells hold different values crossing a decimal digit boundary (9 vs 10): Redis answers 10, memory 9"),
 ("C08-redis-remove-second-bucket", "C08", "/tmp/wt2-C08", 2, ["C08", "C13", "C02"],
  "CuckooFilterRedis.Remove removes from the first bucket in the alternate-bucket branch (same as C13-redis-remove-second-bucket, found independently).",
  "remove a key stored in its alternate bucket because its first bucket was full"),
 ("C09-bucket-redis-counter-reset-on-attach", "C09", "/tmp/wt2-C09", 1, ["C09", "C13"],
  "newBucketRedis SETs <bucket>_len to 0 instead of INCRBY 0, so attaching a handle wipes the occupancy counters of a live filter.",
  "re-attach (NewCuckooFilterRedisFromKey) while some bucket is non-empty, then compare exports or keep inserting into occupied buckets"),
 ("C09-hll-import-metadata-points-at-source", "C09", "/tmp/wt2-C09", 2, ["C09", "C19", "C10"],
  "HyperLogLogRedis.Import writes the snapshot's register count and key into the metadata hash instead of the handle's own.",
  "Import(data, true), re-attach afterwards, update through one handle, count through the other"),
 ("C12-mem-merge-skips-allsum-zero", "C12", "/tmp/wt2-C12", 1, ["C12"],
  "CountMinSketch.Merge returns early when the argument's allSum is 0; Merge itself never updates allSum.",
  "a sketch filled only through Merge (allSum 0 but counts present) merged onwards: acc.Merge(b); a.Merge(acc)"),
 ("C12-redis-merge-chunk-off-by-one", "C12", "/tmp/wt2-C12", 2, ["C12"],
  "The Redis merge script pushes rows in chunks of 4096 with an inclusive end that is off by one.",
  "Redis sketches of 4098 or more columns (miniredis allows up to ~5100): cells from column 4097 on hold the left neighbour's value"),
 ("C14-mem-stale-undo-log", "C14", "/tmp/wt2-C14", 1, ["C14", "C02"],
  "The in-memory undo log became a reused field cleared only on the failure path.",
  "a successful insert that evicted entries followed by the first failed non-destructive insert: stale records are replayed over live entries"),
 ("C14-redis-rollback-per-bucket", "C14", "/tmp/wt2-C14", 2, ["C14"],
  "The Redis rollback restores only the oldest log record per bucket (slot dropped from the dedupe key).",
  "bucketSize >= 3 and an eviction chain that revisits a bucket on a different slot"),
 ("C15-cms-step-mod-rows", "C15", "/tmp/wt2-C15", 1, ["C15", "C03", "C08"],
  "Count-Min getPositions takes the per-row step modulo rows instead of columns, so rows are no longer independent.",
  "sketch with more than one row and a stream with heavy hitters above eps*N"),
 ("C15-murmur-tail-case-14", "C15", "/tmp/wt2-C15", 2, ["C15", "C02", "C01"],
  "murmur3 tail case 14 shifts by 32 instead of 40: bytes 12 and 13 of the tail collide.",
  "keys whose length mod 16 is 14 or 15 (fixed-width ids): cuckoo false-positive rate ~0.98"),
 ("C18-bucket-readfrom-short-read", "C18", "/tmp/wt2-C18", 1, ["C18", "C11"],
  "BucketMem.readFrom reads the fingerprint with stream.Read instead of io.ReadFull: a short read at the tail is accepted.",
  "last slot of the last bucket occupied and the cut strictly inside that final fingerprint"),
 ("C18-cms-readfrom-eof-between-rows", "C18", "/tmp/wt2-C18", 2, ["C18", "C11"],
  "CountMinSketch.ReadFrom treats io.EOF between rows as the end of the image.",
  "a cut exactly on a row boundary (offsets 24 + r*8*columns); through TopK.ReadFrom with k = 0"),
 # ---- batch 3 (sub-agents were told the earlier ideas and asked for something different in kind) ----
 ("C01-redis-setbit-batches-skip-17th", "C01", "/tmp/wt3-C01", 1, ["C01"],
  "BitSetRedis.insertMulti flushes its SETBIT pipeline in batches of 16 and advances by 17: the 17th, 34th, ... probe position is never written.",
  "Redis backend with numHashes >= 17 (error rate <= ~1e-5 or explicit k); any element is a false negative right after its own insert"),
 ("C01-hash-memo-keeps-callers-slice", "C01", "/tmp/wt3-C01", 2, ["C01"],
  "BloomFilter memoises the hash pair of the last element but keeps the caller's slice, not a copy.",
  "a caller that reuses one buffer: Insert/Lookup(buf holding x); overwrite buf with y; Insert(buf); later Lookup(y) is false"),
 ("C03-updatestring-64-byte-buffer", "C03", "/tmp/wt3-C03", 1, ["C03"],
  "CountMinSketch.UpdateString copies the key into a [64]byte stack buffer.",
  "in-memory sketch, string keys longer than 64 bytes through UpdateString: counted under their prefix, Count(key) = 0"),
 ("C03-redis-conservative-update", "C03", "/tmp/wt3-C03", 2, ["C03", "C08", "C12"],
  "The Redis Update script increments a row's counter only when it is at or below the smallest counter seen so far in the row loop.",
  "rows >= 2, x collides with an earlier element in a later row but not an earlier one, Update(x, c > 1): under-count"),
 ("C06-mem-merge-aliases-registers", "C06", "/tmp/wt3-C06", 1, ["C06"],
  "HyperLogLog.Merge into an all-zero receiver takes the argument's register slice instead of copying it.",
  "merge into a fresh/reset sketch, then update or merge either sketch again: the change leaks into the other"),
 ("C06-mem-count-cache-not-invalidated-by-merge", "C06", "/tmp/wt3-C06", 2, ["C06", "C05"],
  "HyperLogLog.Count caches the harmonic sum; Update/Reset/Import/ReadFrom invalidate it, Merge does not.",
  "Count, then Merge, then Count on the receiver: stale estimate although the registers are the union's"),
 ("C10-redis-restore-counter-counts-holes", "C10", "/tmp/wt3-C10", 1, ["C10", "C13"],
  "BucketRedis.restore sets the bucket counter to the number of slots restored, empty ones included.",
  "Redis cuckoo state with a removed entry (hole), Export -> Import under new keys, then a further Insert into that bucket"),
 ("C10-topk-export-pads-and-import-skips-empty", "C10", "/tmp/wt3-C10", 2, ["C10"],
  "TopK.Export pads the heap with {\"\",0} up to k and Import skips entries whose value is empty.",
  "the empty key []byte{} among the tracked top-k at Export: dropped on Import"),
 ("C11-topk-readfrom-single-read", "C11", "/tmp/wt3-C11", 1, ["C11", "C18"],
  "TopK.ReadFrom reads the element value with one stream.Read instead of io.ReadFull.",
  "a stream that returns short reads (one-byte reader, small bufio, socket): truncated element, wrong count, misaligned tail"),
 ("C11-hll-readfrom-reuses-larger-receiver", "C11", "/tmp/wt3-C11", 2, ["C11"],
  "HyperLogLog.ReadFrom reuses the receiver's register slice when large enough, without reslicing to the stream's register count.",
  "a receiver with more registers than the written sketch: stale tail, wrong Count and returned byte count, Equals still true"),
 ("C13-mem-remove-strips-both-buckets", "C13", "/tmp/wt3-C13", 1, ["C13", "C02"],
  "CuckooFilter.Remove removes from both candidate buckets (no short circuit) and decrements Length once.",
  "the same fingerprint in both candidate buckets (more than bucketSize duplicates, or i1 == i2 with two copies)"),
 ("C13-redis-evict-drops-carry-2", "C13", "/tmp/wt3-C13", 2, ["C13", "C02"],
  "The Redis eviction loop no longer carries the evicted fingerprint forward (same line as C02-redis-evict-drops-carry, found independently).",
  "a successful Redis insert whose eviction chain relocates at least two entries"),
 ("C16-bloom-watch-exec-aborts-unretried", "C16", "/tmp/wt3-C16", 1, ["C16"],
  "BitSetRedis.insertMulti became WATCH/EXISTS/MULTI..EXEC; an EXEC aborted by a concurrent writer is never retried and Insert ignores the error.",
  "two clients, the second one's write between the first one's WATCH and EXEC: all bits of that insert are lost"),
 ("C16-bucket-redis-caches-free-slots", "C16", "/tmp/wt3-C16", 2, ["C16", "C09"],
  "BucketRedis.isFree caches the number of free slots in the handle and answers later calls locally.",
  "two handles: A:Insert(x1), B:Insert(x2) fills the bucket, A:Insert(x3) reports success but nothing was stored"),
 ("C17-cms-equals-allsum-fast-path", "C17", "/tmp/wt3-C17", 1, ["C17"],
  "CountMinSketch.Equals returns true when both allSum fields are 0 (Merge never updates allSum).",
  "a sketch filled only through Merge compared with an empty one: Equals true, Count differs"),
 ("C17-topk-equals-rate-tolerance", "C17", "/tmp/wt3-C17", 2, ["C17"],
  "TopK/TopKRedis.Equals compare errorRate and accuracy up to 1e-9.",
  "two Top-Ks whose rates differ by <= 1e-9 (same sketch shape, same heaps): Equals true, parameters differ"),
 ("C04-topk-insert-zero-copy-string", "C04", "/tmp/wt3-C04", 1, ["C04"],
  "TopK.Insert builds the element string without copying (unsafe): heap entries alias the caller's slice.",
  "a caller that reuses or overwrites its key buffer after Insert (bufio.Scanner.Bytes pattern)"),
 ("C04-topk-fix-skips-single-child-node", "C04", "/tmp/wt3-C04", 2, ["C04"],
  "TopK.Insert updates a tracked element in place and calls heap.Fix only if 2*index+2 < len(heap): the node with a single left child is skipped.",
  "an even number of tracked entries and a re-insert that lifts the entry at position len/2-1 above its child at len-1"),
 ("C19-cms-positions-memo-ignores-columns", "C19", "/tmp/wt3-C19", 1, ["C19", "C03", "C08"],
  "getPositions caches the last element's positions in package-level variables keyed by bytes and row count, not column count.",
  "two sketches with the same rows and different widths get the same element in adjacent calls: the second uses the first one's columns"),
 ("C19-topk-redis-import-reuses-arg-slice", "C19", "/tmp/wt3-C19", 2, ["C19", "C10"],
  "TopKRedis.importHeap reuses a package-level argument slice at full length.",
  "a smaller heap imported after a larger one was imported by any Top-K in the process: leftover members are ZADDed into the copy"),
 # ---- batch 4 ----
 ("C02-redis-lookup-maxlen-counter", "C02", "/tmp/wt4-C02", 1, ["C02", "C13"],
  "The Redis bucket lookup script passes the bucket counter as MAXLEN to LPOS, scanning only the 'occupied' prefix of the list.",
  "Redis backend, bucket size >= 2: a remove leaves a hole, add grows the list at its head, a live entry sits past position _len"),
 ("C02-positions-memo-keeps-callers-slice", "C02", "/tmp/wt4-C02", 2, ["C02"],
  "getPositions memoises the last key hashed but keeps the caller's slice: a buffer rewritten in place with another key of equal length hits the memo.",
  "a caller that reuses one buffer for consecutive inserts of equal-length keys"),
 ("C05-estimation-uint32-square", "C05", "/tmp/wt4-C05", 1, ["C05"],
  "getEstimation squares the register count in uint32: the square wraps to 0 from 65536 registers on, Count returns 0.",
  "in-memory sketch with 2^16 or more registers"),
 ("C05-mem-update-rlock-fast-path", "C05", "/tmp/wt4-C05", 2, ["C07", "C05"],
  "HyperLogLog.Update reads the register under RLock and later stores the max against the value read earlier under the write lock.",
  "two concurrent updates to the same register: the larger value written first, the smaller second (no data race)"),
 ("C07-cms-update-rlock-atomic-cells", "C07", "/tmp/wt4-C07", 1, ["C07"],
  "CountMinSketch.Update takes RLock and bumps the cells atomically, but allSum += count stays a plain read-modify-write under the shared lock.",
  "two goroutines inside Update at once: increments of the exported total are lost"),
 ("C07-topk-export-lock-order", "C07", "/tmp/wt4-C07", 2, ["C07"],
  "TopK.Export takes the sketch lock before t.lock while Insert takes them in the other order.",
  "a concurrent Insert and Export deadlock (no race, no wrong value)"),
 ("C08-redis-merge-skips-last-column", "C08", "/tmp/wt4-C08", 1, ["C08", "C12"],
  "The Redis Count-Min merge script loops j = 1 .. columns-1: the last column of every row is not merged.",
  "after a Merge, a key with a row position equal to columns-1"),
 ("C08-topk-redis-zincrby", "C08", "/tmp/wt4-C08", 2, ["C08", "C04"],
  "TopKRedis.Insert bumps an already tracked element with ZINCRBY count instead of ZREM + ZADD with the sketch frequency.",
  "a tracked element whose cells were raised by a colliding key in a narrow sketch, then inserted again"),
 ("C09-bucket-redis-full-flag", "C09", "/tmp/wt4-C09", 1, ["C09"],
  "BucketRedis remembers 'seen full' in a handle-local flag cleared only by remove/restore on the same handle.",
  "handle A sees a bucket full, re-attached handle B removes from it, A inserts there: A skips the freed bucket"),
 ("C09-cuckoo-attach-retries-default", "C09", "/tmp/wt4-C09", 2, ["C09"],
  "NewCuckooFilterRedisFromKey replaces retries == 0 by 500.",
  "a filter created with retries = 0, re-attached: the second handle relocates entries the creating handle refuses to"),
 ("C12-mem-merge-saturates", "C12", "/tmp/wt4-C12", 1, ["C12"],
  "In-memory Merge pins a cell at MaxUint64 when the sum passes 2^64 while Update wraps.",
  "cell sums reaching 2^64 (merges that feed each other double the cells)"),
 ("C12-redis-merge-area-check", "C12", "/tmp/wt4-C12", 2, ["C12"],
  "CountMinSketchRedis.Merge folds the two dimension checks into rows*columns != rows*columns.",
  "same-area sketches of different shape, receiver with more rows: leading rows overwritten, then an error, nothing rolled back"),
 ("C14-mem-noop-swap-guard-wrong-variable", "C14", "/tmp/wt4-C14", 1, ["C14", "C02"],
  "The in-memory eviction loop skips logging a 'no-op swap' by comparing the victim with the inserted fingerprint instead of the carried one.",
  "full filter, failed non-destructive insert carrying an already stored fingerprint: the old copy is lost on roll-back"),
 ("C14-redis-rollback-pipeline-unflushed", "C14", "/tmp/wt4-C14", 2, ["C14"],
  "The Redis roll-back became a pipeline flushed every 100 LSETs with no final Exec.",
  "retries not a multiple of 100: the oldest retries % 100 undo records are never written back"),
 ("C15-redis-count-string-min-2", "C15", "/tmp/wt4-C15", 1, ["C15", "C03", "C08"],
  "The Redis Count script compares the raw LINDEX replies as strings (same line as C08-redis-count-string-min, found independently).",
  "Redis sketch with >= 2 rows, a skewed stream: small cells starting with a larger digit than cells polluted by a heavy hitter"),
 ("C15-cuckoo-fpl-from-bucket-count", "C15", "/tmp/wt4-C15", 2, ["C15"],
  "NewCuckooFilterWithErrorRate passes the bucket count instead of the size to CalculateFingerPrintLength.",
  "configurations where the fingerprint loses one decimal digit: about ten times the false-positive rate"),
 ("C18-topk-readfrom-returns-outer-err", "C18", "/tmp/wt4-C18", 1, ["C18", "C11"],
  "TopK.ReadFrom returns the outer (nil) err when reading a heap value fails.",
  "a cut inside, or at the start of, a non-empty heap value string: (0, nil) is returned"),
 ("C18-topk-export-trailing-newline", "C18", "/tmp/wt4-C18", 2, ["C18", "C10"],
  "TopK.Export uses json.Encoder (SetEscapeHTML(false)), which appends a newline: the document minus its last byte is complete JSON.",
  "exactly one cut: prefix length len-1 is accepted by Import"),
 # ---- batch 5 ----
 ("C01-redis-dedup-sentinel-zero", "C01", "/tmp/wt5-C01", 1, ["C01"],
  "The Redis branch of BloomFilter.Insert drops a probe that repeats the previous index, with the sentinel starting at 0: a first probe at bit 0 is never written.",
  "Redis-backed filter of size 1, or an element whose first probe is bit 0"),
 ("C01-insertstring-bypasses-lock", "C01", "/tmp/wt5-C01", 2, ["C07", "C01"],
  "InsertString calls the unlocked helper insertHashes directly.",
  "two goroutines inserting into one in-memory filter, one through InsertString: bits lost in a shared word"),
 ("C03-redis-count-allsum-fast-path", "C03", "/tmp/wt5-C03", 1, ["C09", "C12", "C03"],
  "CountMinSketchRedis.Count returns 0 when the handle-local allSum is 0.",
  "a reader handle attached by metadata key, or a fresh sketch after Merge(populated): Count is 0 for everything"),
 ("C03-mem-import-keeps-old-columns", "C03", "/tmp/wt5-C03", 2, ["C10", "C03"],
  "CountMinSketch.Import no longer sets cms.columns.",
  "import of a document of another width: positions are reduced modulo the old width"),
 ("C05-redis-update-false-on-zero", "C05", "/tmp/wt5-C05", 1, ["C05"],
  "The Redis updateRegisters script returns false when the count byte is 0: Update reports an error (redis: nil).",
  "Redis backend, an element whose count byte is 0 (about 1 in 256); only visible if the Update error is checked"),
 ("C05-redis-count-flags-swapped", "C05", "/tmp/wt5-C05", 2, ["C05", "C08"],
  "HyperLogLogRedis.Count passes its two bool arguments to getEstimation in the wrong order.",
  "Count(false, true) or Count(true, false) with a fractional part >= 0.5"),
 ("C06-index-memo-keeps-callers-slice", "C06", "/tmp/wt5-C06", 1, ["C06"],
  "getRegisterIndexAndCount memoises the last key but keeps the caller's slice.",
  "consecutive different keys of equal length through one reused buffer"),
 ("C06-mem-merge-locks-both", "C06", "/tmp/wt5-C06", 2, ["C06"],
  "In-memory Merge takes h.lock.Lock() and g.lock.RLock(), both deferred.",
  "h.Merge(h) self-deadlocks; concurrent a.Merge(b) / b.Merge(a) deadlock on opposite lock order"),
 ("C07-cms-writeto-unlocks-per-row", "C07", "/tmp/wt5-C07", 1, ["C07"],
  "CountMinSketch.WriteTo releases the lock around each row's binary.Write.",
  "an Update between two row writes: a torn stream that matches no sequential state (no data race)"),
 ("C07-bloom-insert-lock-condition", "C07", "/tmp/wt5-C07", 2, ["C07"],
  "BloomFilter.Insert locks when metadataKey == \"\" instead of isBitSetMem(filter).",
  "an in-memory bitset with a non-empty metadata key (NewBloomFilterWithBitSet): Insert runs unlocked"),
 ("C09-bloom-attach-writes-back", "C09", "/tmp/wt5-C09", 1, ["C16", "C09"],
  "fromRedisKey writes back the bitset string it has just read.",
  "an Insert between the attach's read and its write-back is erased for all handles"),
 ("C09-bloom-attach-size-in-bytes", "C09", "/tmp/wt5-C09", 2, ["C09"],
  "fromRedisKey takes the size as the byte length, and FromKey goes through the validating constructor.",
  "filters made by NewRedisBloomFilterFromBitSet (or after importing such an export) can no longer be re-attached"),
 ("C10-bloom-export-bitset-size", "C10", "/tmp/wt5-C10", 1, ["C10", "C09"],
  "BloomFilter.Export writes the size returned by the bitset as m instead of the filter's size.",
  "Export through a re-attached Redis handle (8x size), or NewMemBloomFilterFromBitSet(nil, k)"),
 ("C10-redis-setmatrix-chunks", "C10", "/tmp/wt5-C10", 2, ["C10"],
  "The Redis setMatrix script pushes 1024-value slices with `while first < columns`.",
  "widths of 1 modulo 1024 (1, 1025, 2049): the last column of every imported row is lost"),
 ("C11-bloom-writeto-recomputed-count", "C11", "/tmp/wt5-C11", 1, ["C11"],
  "BitSetMem.writeTo recomputes the byte count as (2 + size/64 + 1) * 8.",
  "filter sizes that are multiples of 64: WriteTo over-reports by 8 bytes"),
 ("C11-topk-writeto-sketch-count", "C11", "/tmp/wt5-C11", 2, ["C11"],
  "TopK.WriteTo writes each heap entry's frequency as sketch.Count(value) instead of the stored one.",
  "a tracked element whose cells were raised by a later colliding element"),
 ("C12-mem-conservative-update", "C12", "/tmp/wt5-C12", 1, ["C12", "C03"],
  "In-memory Update raises only cells below min+count (conservative update): cells are no longer linear in the stream.",
  ">= 2 rows, x sharing its row-0 cell with y and its row-1 cell with another key, x in A and the others in B"),
 ("C12-redis-merge-deferred-allsum", "C12", "/tmp/wt5-C12", 2, ["C12"],
  "CountMinSketchRedis.Merge adds the argument's allSum in a defer that also runs on the error returns.",
  "a merge rejected for unequal dimensions changes the receiver's exported total"),
 ("C13-redis-remove-early-exit-when-free", "C13", "/tmp/wt5-C13", 1, ["C13"],
  "CuckooFilterRedis.Remove returns false without probing the second bucket when the first one is free.",
  "an element in its second bucket while its first bucket has room again"),
 ("C13-mem-remove-bucket-value-copy", "C13", "/tmp/wt5-C13", 2, ["C13"],
  "CuckooFilter.Remove works on a value copy of the bucket: the slot is cleared, the bucket's counter never decremented.",
  "capacity leaks: counters no longer match slots; an emptied filter is not Equal to a new one"),
 ("C16-cuckoo-attach-rewrites-metadata", "C16", "/tmp/wt5-C16", 1, ["C16"],
  "NewCuckooFilterRedisFromKey writes the metadata (incl. length) back after reading it.",
  "an HINCRBY of a concurrent Insert between the attach's HGETALL and HSET is lost"),
 ("C16-cms-redis-shared-key-buffer", "C16", "/tmp/wt5-C16", 2, ["C16"],
  "The KEYS slice of the update/count scripts is a buffer stored in the handle.",
  "goroutines sharing one handle, cold script cache: the EVAL after NOSCRIPT re-reads the buffer another Update has refilled"),
 ("C17-topk-redis-compare-half", "C17", "/tmp/wt5-C17", 1, ["C17"],
  "compareHeaps loops to size instead of 2*size over the WITHSCORES reply: only the lower half of the set is compared.",
  "equal sketches, heaps differing only in the upper half"),
 ("C17-cuckoo-equals-as-sets", "C17", "/tmp/wt5-C17", 2, ["C17"],
  "In-memory CuckooFilter.Equals compares buckets as sets, one direction.",
  "a bucket holding a duplicated fingerprint: x,x,y vs x,y,y equal; x,x vs x,y asymmetric"),
 ("C02-redis-lookup-skips-second-when-first-has-room", "C02", "/tmp/wt6-C02", 1, ["C02"],
  "CuckooFilterRedis.Lookup answers false without looking at the alternate bucket when the first bucket has a free slot.",
  "Redis backend; an element stored in its alternate bucket, then a Remove that frees a slot of its first bucket, then Lookup"),
 ("C02-bucket-remove-clears-every-copy", "C02", "/tmp/wt6-C02", 2, ["C02", "C13"],
  "BucketMem.remove scans the slots without a break and clears every slot holding the fingerprint.",
  "bucket size >= 2 and one bucket holding the same fingerprint twice (an element inserted twice), then one Remove"),
 ("C04-admission-against-live-estimate", "C04", "/tmp/wt6-C04", 1, ["C04"],
  "TopK.Insert admits against the sketch's current estimate of the weakest tracked entry instead of its stored count.",
  "a narrow sketch in which another key shares a counter with the heap's root after the root was stored, then an insert whose estimate falls between the two"),
 ("C04-redis-values-unstable-tie-order", "C04", "/tmp/wt6-C04", 2, ["C04"],
  "TopKRedis.Values drops the element tie-break and relies on sort.Slice keeping ZRANGE's member order.",
  "Redis backend, more than 12 reported entries (k >= 13) with at least two equal counts: sort.Slice switches from insertion sort to pdqsort"),
 ("C08-redis-hll-hmean-as-lua-number", "C08", "/tmp/wt6-C08", 1, ["C08", "C05"],
  "The Redis harmonic-mean script returns a Lua number (truncated to an integer reply) instead of a string.",
  "registers with small values so that the harmonic sum has a fractional part that matters for the estimate"),
 ("C08-redis-bloom-size-rounded-to-bytes", "C08", "/tmp/wt6-C08", 2, ["C08", "C01"],
  "NewRedisBloomFilterWithParameters rounds the computed size up to a whole number of bytes.",
  "parameters whose computed size is not a multiple of 8: positions are taken modulo different sizes in the two variants"),
 ("C14-mem-undo-log-capped-at-512", "C14", "/tmp/wt6-C14", 1, ["C14"],
  "The in-memory undo log is allocated once with capacity 512 and records nothing beyond it.",
  "retries > 512 on a saturated filter with a few hundred slots, so that the failing walk reaches some slot for the first time after its 512th step"),
 ("C14-undo-slot-index-uint8", "C14", "/tmp/wt6-C14", 2, ["C14"],
  "The undo-log record stores the slot inside the bucket as uint8 (type in the base file, casts in both backends).",
  "bucket size > 256, saturated filter, a failing non-destructive insert whose walk evicts from a slot >= 256"),
 ("C15-bloom-index-mod-after-float", "C15", "/tmp/wt6-C15", 1, ["C15", "C01"],
  "Bloom getIndex takes the modulo after the float64 round trip of the 64-bit sum.",
  "sums above 2^53 lose their low bits: probe positions cluster on multiples of a power of two, false-positive rate far above the budget"),
 ("C15-cms-rows-from-confidence", "C15", "/tmp/wt6-C15", 2, ["C15"],
  "NewCountMinSketchFromEstimates reads delta as a confidence level: rows = ceil(ln(1/(1-delta))).",
  "any small delta: one row instead of several, over-estimates above eps*N far more often than delta"),
 ("C18-bucket-readfrom-seeks-over-empty", "C18", "/tmp/wt6-C18", 1, ["C18", "C11"],
  "BucketMem.readFrom steps over the slots of an empty bucket with Seek when the reader can seek.",
  "the last bucket of the filter is empty, the image is cut inside that bucket's slot area and is read through a seekable reader"),
 ("C18-cuckoo-readfrom-empty-short-circuit", "C18", "/tmp/wt6-C18", 2, ["C18", "C11"],
  "CuckooFilter.ReadFrom returns right after the header when the header says length 0.",
  "a filter holding no element (fresh, or drained by removes); any cut after the 40-byte header is accepted"),
 ("C19-topk-import-merges-live-rows", "C19", "/tmp/wt6-C19", 1, ["C19", "C10"],
  "TopKRedis.Import under new keys fills the copy's sketch from the rows currently stored under the exporter's key instead of the document.",
  "Export of A, at least one Insert on A, then Import(doc, true) into another Top-K and an operation of the copy that consults its sketch"),
 ("C19-hll-import-new-key-suffix", "C19", "/tmp/wt6-C19", 2, ["C19"],
  "HyperLogLogRedis.Import builds its new key as <exported key>_ (an empty slice of the random string).",
  "two different sketches that both import, under new keys, documents of the same origin: they share one register list"),
 ("C07-cuckoo-export-nested-rlock", "C07", "/tmp/wt7-C07", 1, ["C07"],
  "CuckooFilter.Length and Export take RLock, and Export reads the length through the public Length(): a nested read lock.",
  "a writer (Insert/Remove) starts waiting for the lock between Export's two RLock acquisitions: Export, the writer and everything after them block for ever"),
 ("C07-cms-count-shared-scratch-under-rlock", "C07", "/tmp/wt7-C07", 2, ["C07"],
  "CountMinSketch.Update and Count hash into a per-sketch scratch buffer; Count was downgraded to RLock.",
  "two concurrent Count calls for different keys on a frozen sketch overwrite each other's positions"),
 ("C09-keygen-seeded-per-second", "C09", "/tmp/wt7-C09", 1, ["C09", "C19"],
  "The random key generator is seeded with time.Now().Unix() instead of UnixNano().",
  "two OS processes started in the same second draw the same 'random' keys: the second one's structures land on the first one's"),
 ("C09-bloom-metadata-unclamped-hashes", "C09", "/tmp/wt7-C09", 2, ["C09"],
  "NewRedisBloomFilterWithParameters stores the raw numHashes (0 for lax error rates) in the metadata while the handle uses max(.,1).",
  "error rate above ~0.62: a re-attached handle has 0 hashes, answers true to everything and loses its inserts"),
 ("C10-cuckoo-redis-import-shares-metadata-key", "C10", "/tmp/wt7-C10", 1, ["C10", "C19"],
  "CuckooFilterRedis.Import with new keys regenerates only the data key and takes the metadata key from the document.",
  "an Insert or Remove on the copy after the import moves the original's Length / re-attachment"),
 ("C10-redis-getmatrix-32bit-cells", "C10", "/tmp/wt7-C10", 2, ["C10"],
  "CountMinSketchRedis.getMatrix parses cells with ParseUint(c, 10, 32).",
  "a cell at or above 2^32: Export of the sketch fails, Top-K Export writes a null matrix and Import panics"),
 ("C12-mem-merge-copies-row-headers", "C12", "/tmp/wt7-C12", 1, ["C12"],
  "In-memory Merge into a never-updated receiver copies the argument's matrix with copy(): the rows are shared afterwards.",
  "a never-updated receiver merged with B, then an update on either side or a second merge"),
 ("C12-redis-merge-del-before-read", "C12", "/tmp/wt7-C12", 2, ["C12", "C09"],
  "The Redis merge script deletes the receiver's row before it reads the argument's row.",
  "receiver and argument share their Redis key: Merge(A, A), a second handle of the same sketch, or an import that kept the key"),
 ("C16-bloom-insert-through-shared-scratch-key", "C16", "/tmp/wt7-C16", 1, ["C16"],
  "BitSetRedis.insertMulti stages its bits in one scratch key per filter, ORs it in with BITOP and deletes it.",
  "one client's DEL lands between another client's staging pipeline and its BITOP"),
 ("C16-topk-redis-zaddnx", "C16", "/tmp/wt7-C16", 2, ["C16"],
  "TopKRedis.Insert uses ZADD NX.",
  "two clients insert the same element and both find it absent before either adds it: the later, larger count is dropped"),
 ("C17-bitset-redis-equals-whole-bytes", "C17", "/tmp/wt7-C17", 1, ["C17"],
  "BitSetRedis.equals compares GETRANGE 0 size/8-1: the last partial byte is never compared.",
  "a size not divisible by 8 and two filters differing only in the last size%8 bits"),
 ("C17-cms-redis-equals-and-guard", "C17", "/tmp/wt7-C17", 2, ["C17"],
  "CountMinSketchRedis.Equals rejects only when rows AND columns differ.",
  "sketches differing in exactly one dimension: 2x8 equals 3x8 (one direction only)"),
 ("C05-register-bits-via-log10", "C05", "/tmp/wt8-C05", 1, ["C05", "C06"],
  "The constructor computes the number of index bits as uint64(math.Log10(m)/math.Log10(2)): one too small for m = 2048, 8192, 2^21, 2^22, 2^26.",
  "a sketch with exactly 2048 or 8192 registers (both backends); every other accepted size is unchanged"),
 ("C05-mem-count-cache-survives-reset", "C05", "/tmp/wt8-C05", 2, ["C06", "C05"],
  "Count caches the harmonic sum; Update invalidates it, Reset / Merge / Import / ReadFrom do not.",
  "Update..., Count, then Reset (or Merge, Import, ReadFrom), then Count again"),
 ("C11-cms-writeto-streams-after-unlock", "C11", "/tmp/wt8-C11", 1, ["C07", "C11"],
  "CountMinSketch.WriteTo copies allSum and the matrix header under the lock and unlocks before streaming the live rows.",
  "an Update that lands while the rows are being written: the image has the old allSum and newer counters"),
 ("C11-cuckoo-readfrom-keeps-own-retries", "C11", "/tmp/wt8-C11", 2, ["C11"],
  "CuckooFilter.ReadFrom reads the retries field from the stream but does not assign it.",
  "a filter built with a retry budget other than the receiver's (non-default retries), read into a default receiver"),
 ("C13-redis-add-treats-position-0-as-none", "C13", "/tmp/wt8-C13", 1, ["C13"],
  "The Redis add script treats a free slot at list position 0 as 'no free slot' and pushes at the head.",
  "fill both buckets, remove the entry at the head of a list, insert again: the bucket holds an empty slot its counter calls full, a later eviction fills it"),
 ("C13-mem-remove-under-rlock", "C13", "/tmp/wt8-C13", 2, ["C07", "C13"],
  "CuckooFilter.Remove takes RLock instead of Lock.",
  "two goroutines removing disjoint elements at the same time: decrements of Length are lost"),
 ("C18-cms-import-decoder-accepts-empty", "C18", "/tmp/wt8-C18", 1, ["C18"],
  "CountMinSketch.Import decodes with json.NewDecoder and ignores io.EOF.",
  "the empty prefix (cut after byte 0) of an exported document: Import returns nil and installs a 0x0 sketch"),
 ("C18-hll-readfrom-clamps-register-count", "C18", "/tmp/wt8-C18", 2, ["C18"],
  "HyperLogLog.ReadFrom clamps the header's register count to 65536 instead of rejecting larger ones.",
  "a sketch with more than 65536 registers: every cut from byte 24+65536 on is loaded without error"),
]


def sh(cmd, cwd=None, timeout=1800):
    p = subprocess.run(cmd, shell=True, cwd=cwd, env=ENV, stdout=subprocess.PIPE, stderr=subprocess.STDOUT, text=True, timeout=timeout)
    return p.returncode, p.stdout


def repo_clean():
    rc, out = sh("git status --short | grep -v '^??'", "/repo")
    return out.strip() == ""


def restore_repo():
    sh("git checkout -q -- . ; rm -f *.rej *.orig seeded_demo_test.go", "/repo")


def confirm_in_worktree(wt, n, demo_tags):
    """Returns dict of observed results in the scratch worktree."""
    res = {}
    sh("git checkout -q -- . ; rm -f seeded_demo_test.go", wt)
    shutil.copy(f"{wt}/out/demo{n}_test.go", f"{wt}/seeded_demo_test.go")
    rc, out = sh(f"go test -vet=off -count=1 {demo_tags} -run 'TestSeeded{n}' .", wt)
    res["clean_demo"] = "pass" if rc == 0 else "FAIL"
    rc, out = sh(f"git apply out/mutant{n}.diff", wt)
    if rc != 0:
        res["apply"] = "failed: " + out[-200:]
        sh("git checkout -q -- . ; rm -f seeded_demo_test.go", wt)
        return res
    rc1, _ = sh("go build ./... && go build -tags verif ./...", wt)
    res["build"] = "ok" if rc1 == 0 else "FAIL"
    rc, out = sh(f"go test -vet=off -count=1 {demo_tags} -run 'TestSeeded{n}' .", wt)
    res["mutant_demo"] = "fails (as intended)" if rc != 0 else "PASSES"
    fails = [l.strip() for l in out.splitlines() if re.search(r"seeded_demo_test.go:\d+:", l)]
    res["mutant_demo_output"] = fails[:3]
    os.remove(f"{wt}/seeded_demo_test.go")
    rc, out = sh("go test -vet=off -count=1 . ./internal/...", wt)
    res["mutant_suite"] = "passes" if rc == 0 else "FAILS"
    sh("git checkout -q -- .", wt)
    return res


def run_checks(checks):
    caught = {}
    for c in checks:
        # the evidence directory records clean-tree runs only: keep the file as it is
        ev = f"{V}/evidence/{c}.json"
        saved = open(ev).read() if os.path.exists(ev) else None
        try:
            rc, out = sh(f"timeout 1500 ./check {c}", V)
        finally:
            if saved is not None:
                open(ev, "w").write(saved)
        viol = [l for l in out.splitlines() if l.startswith("VIOLATION")]
        sigs = []
        for l in viol:
            m = re.search(r"replay=(\S+)", l)
            tail = " no-failing-input-found" if l.rstrip().endswith("no-failing-input-found") else ""
            name = os.path.basename(m.group(1)) if m else l
            name = re.sub(r"-[0-9a-f]{10}\.json$", "", name)
            sigs.append(name + tail)
        caught[c] = {"exit": rc, "violations": sigs}
    return caught


def main():
    want = sys.argv[1:]
    if not repo_clean():
        print("/repo is not clean"); sys.exit(2)
    for (sid, prop, wt, n, checks, summary, needs) in TABLE:
        if want and not any(sid.startswith(w) for w in want):
            continue
        d = f"{V}/seeded/{sid}"
        os.makedirs(d, exist_ok=True)
        meta = {"id": sid, "property": prop, "summary": summary, "needs_to_manifest": needs}
        have_wt = os.path.isdir(f"{wt}/out")
        if have_wt:
            demo = f"{wt}/out/demo{n}_test.go"
            tags = "-tags seeded_demo" if "go:build seeded_demo" in open(demo).read() else ""
            meta["confirmed_in_scratch_worktree"] = confirm_in_worktree(wt, n, tags)
            meta["demo_run"] = f"cp demo_test.go <worktree>/seeded_demo_test.go && go test -vet=off -count=1 {tags} -run 'TestSeeded{n}' ."
            shutil.copy(demo, f"{d}/demo_test.go")
            # notes of the sub-agent (its own description and commands)
            shutil.copy(f"{wt}/out/notes.md", f"{d}/agent-notes.md")
            src = f"{wt}/out/mutant{n}.diff"
            if os.path.exists(f"{d}/patch.diff") and sh(f"git apply --check {d}/patch.diff", "/repo")[0] == 0:
                src = f"{d}/patch.diff"  # already ported to the current HEAD
        else:
            src = f"{d}/patch.diff"
            old = json.load(open(f"{d}/meta.json")) if os.path.exists(f"{d}/meta.json") else {}
            for k in ("confirmed_in_scratch_worktree", "demo_run"):
                if k in old:
                    meta[k] = old[k]
        # apply to /repo (working tree only)
        rc, out = sh(f"git apply {src}", "/repo")
        if rc != 0:
            rc, out = sh(f"patch -p1 -s --dry-run < {src} && patch -p1 -s < {src}", "/repo")
        if rc != 0:
            meta["applied_to_repo"] = "FAILED: " + out[-300:]
            restore_repo()
            json.dump(meta, open(f"{d}/meta.json", "w"), indent=1)
            print(sid, "APPLY FAILED")
            continue
        rc, diff = sh("git diff", "/repo")
        open(f"{d}/patch.diff", "w").write(diff)
        rc, head = sh("git rev-parse --short HEAD", "/repo")
        meta["applied_to_repo"] = f"git -C /repo apply seeded/{sid}/patch.diff (working tree only, HEAD {head.strip()}), checks run, git -C /repo checkout -- ."
        try:
            meta["checks"] = run_checks(checks)
        finally:
            restore_repo()
        meta["caught"] = any(v["violations"] for v in meta["checks"].values())
        json.dump(meta, open(f"{d}/meta.json", "w"), indent=1)
        print(sid, "caught" if meta["caught"] else "MISSED", {c: v["violations"] for c, v in meta["checks"].items()}, flush=True)
    if not repo_clean():
        print("WARNING: /repo not clean at the end")


if __name__ == "__main__":
    main()
