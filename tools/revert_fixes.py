#!/usr/bin/env python3
"""revert_fixes.py — regression evidence for the `fix:` commits: for every `fixed:` line of
known-findings.txt, reverse-apply that commit's diff to /repo's working tree (never committed),
run the quick check of the property it is listed under, record whether the violation comes back
(and with which signature), and restore /repo straight away. Commits whose reverse diff no longer
applies on top of later fixes are reported as such."""
import json, os, re, subprocess, sys
V = "/verif"
ENV = dict(os.environ, GOFLAGS="-mod=mod", GOPROXY="off", GOSUMDB="off", GOTOOLCHAIN="local")

def sh(cmd, cwd=None, timeout=1800):
    p = subprocess.run(cmd, shell=True, cwd=cwd, env=ENV, stdout=subprocess.PIPE, stderr=subprocess.STDOUT, text=True, timeout=timeout)
    return p.returncode, p.stdout

def main():
    seen, rows = set(), []
    for line in open(V + "/known-findings.txt"):
        m = re.match(r"fixed: property=(C\d+) ([0-9a-f]{7}) (.*)", line)
        if not m:
            continue
        prop, commit, text = m.groups()
        if (prop, commit) in seen:
            continue
        seen.add((prop, commit))
        rc, out = sh("git status --short | grep -v '^??'", "/repo")
        if out.strip():
            print("/repo not clean"); sys.exit(2)
        rc, out = sh(f"git diff {commit}^ {commit} -- . ':!*_test.go' | git apply -R", "/repo")
        if rc != 0:
            rows.append({"property": prop, "commit": commit, "result": "reverse diff no longer applies (later fixes touch the same lines)", "what": text[:120]})
            sh("git checkout -q -- .", "/repo")
            print(prop, commit, "does not apply", flush=True)
            continue
        ev = f"{V}/evidence/{prop}.json"
        saved = open(ev).read() if os.path.exists(ev) else None
        try:
            rc, out = sh(f"timeout 1500 ./check {prop}", V)
        finally:
            sh("git checkout -q -- .", "/repo")
            if saved is not None:  # the evidence directory records clean-tree runs only
                open(ev, "w").write(saved)
        viol = [re.sub(r"-[0-9a-f]{10}\.json", "", os.path.basename(re.search(r"replay=(\S+)", l).group(1))) +
                (" no-failing-input-found" if l.rstrip().endswith("no-failing-input-found") else "")
                for l in out.splitlines() if l.startswith("VIOLATION")]
        rows.append({"property": prop, "commit": commit, "violations": viol, "what": text[:120]})
        print(prop, commit, "caught" if viol else "NOT CAUGHT", viol[:2], flush=True)
    json.dump(rows, open(V + "/seeded/fix-reverts.json", "w"), indent=1)

if __name__ == "__main__":
    main()
