#!/usr/bin/env python3
"""Replace the table of DESIGN.md II.6 by the current one (tools/seeded_table.py)."""
import subprocess, re
p = "/verif/DESIGN.md"
s = open(p).read()
tab = subprocess.run(["python3", "/verif/tools/seeded_table.py"], stdout=subprocess.PIPE, text=True).stdout.strip()
start = s.index("| seeded change | what it does | quick checks run against it |")
end = s.index("\n\n", start)
s = s[:start] + tab + s[end:]
open(p, "w").write(s)
print("rows:", tab.count("\n") - 1)
