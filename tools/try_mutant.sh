#!/bin/bash
# try_mutant.sh <worktree> <n> <prop> [more props...]
# 1. confirm in the scratch worktree: demo passes clean, suite passes + demo fails with the mutant
# 2. apply the mutant to /repo, run the given checks, undo it straight afterwards
export GOFLAGS=-mod=mod GOPROXY=off GOSUMDB=off GOTOOLCHAIN=local
wt=$1; n=$2; shift 2
cd $wt || exit 2
git checkout -q -- . ; rm -f seeded_demo_test.go
demo=out/demo${n}_test.go
tags=""; grep -q "go:build seeded_demo" $demo 2>/dev/null && tags="-tags seeded_demo"
cp $demo seeded_demo_test.go
run="TestSeeded${n}"
echo "== clean: demo"; go test -vet=off -count=1 $tags -run "$run" . 2>&1 | tail -3
git apply out/mutant${n}.diff || { echo "APPLY FAILED in worktree"; exit 2; }
echo "== mutant: build"; go build ./... && go build -tags verif ./... && echo build-ok
echo "== mutant: demo"; go test -vet=off -count=1 $tags -run "$run" . 2>&1 | tail -4
rm -f seeded_demo_test.go
echo "== mutant: suite"; go test -vet=off -count=1 ./... 2>&1 | grep -v "no test files" | tail -2
git checkout -q -- .
echo "== /repo: apply and check"
cd /repo && git status --short | grep -v '^??' && { echo "/repo not clean"; exit 2; }
git apply $wt/out/mutant${n}.diff 2>/dev/null || { patch -p1 -s --dry-run < $wt/out/mutant${n}.diff >/dev/null 2>&1 && patch -p1 -s < $wt/out/mutant${n}.diff; } || { echo "APPLY FAILED in /repo"; git checkout -q -- .; rm -f *.rej *.orig; exit 2; }
git diff --stat | tail -2
cd /verif
for p in "$@"; do
  echo "-- check $p"; timeout 1200 ./check $p 2>&1 | grep -v "^KNOWN-FINDING" | tail -4
done
git -C /repo checkout -q -- . ; git -C /repo status --short | grep -v '^??'
echo "== /repo restored"
