#!/usr/bin/env python3
"""Print the markdown table "which checks catch which seeded changes" from seeded/*/meta.json."""
import glob, json, os
rows = []
for m in sorted(glob.glob("/verif/seeded/*/meta.json")):
    d = json.load(open(m))
    cells = []
    for c, v in sorted(d.get("checks", {}).items()):
        if v["violations"]:
            real = [s for s in v["violations"] if not s.endswith("no-failing-input-found")]
            if real:
                cells.append("**%s**: %s" % (c, "; ".join(s.split("-", 1)[1] for s in real[:2])))
            else:
                cells.append("%s: proof/correspondence only (no-failing-input-found)" % c)
        else:
            cells.append("%s: missed" % c)
    rows.append("| %s | %s | %s |" % (d["id"], d["summary"].replace("|", "/"), "<br>".join(cells)))
print("| seeded change | what it does | quick checks run against it |")
print("|---|---|---|")
print("\n".join(rows))
