#!/usr/bin/env python3
"""Run the harness for a property (no known list) and store, for every monitor signature that is
listed in known-findings.txt, the shrunk witness under corpus/<prop>/<suite>/ and replays/known/."""
import json, os, re, subprocess, sys
prop = sys.argv[1]; seeds = sys.argv[2:] or ["1"]
known = set()
for l in open('/verif/known-findings.txt'):
    m = re.match(r"finding:\s+property=(\S+)\s+sig=(\S+)", l)
    if m and m.group(1) == prop: known.add(m.group(2))
found = set()
for seed in seeds:
    subprocess.run(['/verif/build/harness','-prop',prop,'-model','/verif/build/modeldrv','-seed',seed,'-out','/tmp/rk.json'],cwd='/verif',check=True)
    d = json.load(open('/tmp/rk.json'))
    for f in d['findings'] or []:
        print(('KNOWN ' if f['sig'] in known else 'NEW   ')+f['kind'], f['sig'], f['ops'])
        if f['sig'] in known and f['sig'] not in found:
            found.add(f['sig'])
            suite, sig = f['sig'].split(':',1)
            name = re.sub(r'[^A-Za-z0-9]+','-',sig).strip('-')
            os.makedirs('/verif/corpus/%s/%s'%(prop,suite), exist_ok=True)
            open('/verif/corpus/%s/%s/%s.tok'%(prop,suite,name),'w').write(f['impl_ops']+"\n")
            json.dump(dict(f, property=prop), open('/verif/replays/known/%s-%s-%s.json'%(prop,suite,name),'w'), indent=1)
print('missing witnesses:', sorted(known-found))
