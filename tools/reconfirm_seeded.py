#!/usr/bin/env python3
"""reconfirm_seeded.py [id-prefix ...] — re-confirm every stored seeded change against /repo's CURRENT
HEAD in a fresh scratch worktree (never in /repo itself): patch.diff applies, the library builds with
and without -tags verif, the pinned suite passes, the demonstration fails with the change and passes
without it. The result is written into meta.json ("reconfirmed_at_head"). Worktrees are removed."""
import glob, json, os, re, shutil, subprocess, sys
from concurrent.futures import ThreadPoolExecutor

ENV = dict(os.environ, GOFLAGS="-mod=mod", GOPROXY="off", GOSUMDB="off", GOTOOLCHAIN="local")

def sh(cmd, cwd=None, timeout=1500):
    p = subprocess.run(cmd, shell=True, cwd=cwd, env=ENV, stdout=subprocess.PIPE, stderr=subprocess.STDOUT, text=True, timeout=timeout)
    return p.returncode, p.stdout

def one(d):
    sid = os.path.basename(d.rstrip("/"))
    wt = "/tmp/rc-" + sid
    sh("git -C /repo worktree remove --force %s" % wt)
    rc, out = sh("git -C /repo worktree add --detach %s HEAD" % wt)
    res = {}
    try:
        if rc != 0:
            res["worktree"] = out[-200:]; return sid, res
        rc, head = sh("git rev-parse --short HEAD", wt); res["head"] = head.strip()
        demo = open(d + "/demo_test.go").read()
        tags = "-tags seeded_demo" if "go:build seeded_demo" in demo else ""
        m = re.search(r"func (TestSeeded\d)", demo)
        run = m.group(1) if m else "TestSeeded"
        shutil.copy(d + "/demo_test.go", wt + "/seeded_demo_test.go")
        rc, out = sh("go test -vet=off -count=1 %s -run '%s' ." % (tags, run), wt)
        res["clean_demo"] = "pass" if rc == 0 else "FAIL"
        rc, out = sh("git apply %s/patch.diff" % os.path.abspath(d), wt)
        if rc != 0:
            res["apply"] = "FAILED " + out[-200:]; return sid, res
        rc, out = sh("go build ./... && go build -tags verif ./...", wt)
        res["build"] = "ok" if rc == 0 else "FAIL"
        rc, out = sh("go test -vet=off -count=1 %s -run '%s' ." % (tags, run), wt)
        res["changed_demo"] = "fails (as intended)" if rc != 0 else "PASSES"
        os.remove(wt + "/seeded_demo_test.go")
        rc, out = sh("go test -vet=off -count=1 . ./internal/...", wt)
        res["changed_suite"] = "passes" if rc == 0 else "FAILS"
    finally:
        sh("git -C /repo worktree remove --force %s" % wt)
        shutil.rmtree(wt, ignore_errors=True)
    return sid, res

def main():
    want = sys.argv[1:]
    dirs = [d for d in sorted(glob.glob("/verif/seeded/*/")) if os.path.exists(d + "patch.diff") and os.path.exists(d + "demo_test.go")]
    if want:
        dirs = [d for d in dirs if any(os.path.basename(d.rstrip("/")).startswith(w) for w in want)]
    with ThreadPoolExecutor(max_workers=4) as ex:
        for sid, res in ex.map(one, dirs):
            mp = "/verif/seeded/%s/meta.json" % sid
            meta = json.load(open(mp)) if os.path.exists(mp) else {"id": sid}
            meta["reconfirmed_at_head"] = res
            json.dump(meta, open(mp, "w"), indent=1)
            ok = res.get("clean_demo") == "pass" and res.get("build") == "ok" and res.get("changed_demo", "").startswith("fails") and res.get("changed_suite") == "passes"
            print(sid, "OK" if ok else "PROBLEM", res, flush=True)

if __name__ == "__main__":
    main()
