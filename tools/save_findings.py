#!/usr/bin/env python3
"""save_findings.py <harness result json> : store each finding under replays/known/<prop>-<sig>.json"""
import json, re, sys
d = json.load(open(sys.argv[1]))
for f in d['findings'] or []:
    name = re.sub(r'[^A-Za-z0-9]+', '-', f['sig']).strip('-')
    p = '/verif/replays/known/%s-%s.json' % (d['property'], name)
    json.dump(dict(f, property=d['property']), open(p, 'w'), indent=1)
    print(p)
