#!/usr/bin/env python3
"""Regenerates MANIFEST.json from the table below (kept in one place so it is always valid)."""
import json, subprocess

ALL = ["C%02d" % i for i in range(1, 20)]
HOOK_COMMITS = subprocess.run(["git", "-C", "/repo", "log", "--format=%H", "--", "verif_hooks.go"],
                              stdout=subprocess.PIPE, text=True).stdout.split()

CLAIMED = {
 "C16": dict(cat="proof", tech="Coq interleaving model (API calls as programs of atomic Redis steps, schedules) with permutation-invariance proofs for Bloom/Count-Min/HyperLogLog and kernel-checked witness schedules for cuckoo/Top-K; tied to the code by a go-redis-hook scheduler that replays schedules at command granularity and diffs results and final state with the extracted model",
   text="Proved for any number of clients and every schedule: Bloom bits, Count-Min matrix and HyperLogLog registers after interleaved atomic updates equal the sequential result (generic commuting-updates theorem and its three instances). Refuted by vm_compute witnesses: cuckoo isFree/add/HINCRBY race (both succeed, one not findable, Length too large) and Top-K double ZPOPMIN. A scheduler built on a go-redis hook blocks each client before every command and follows generated schedules (and the Coq witnesses) on the real code against miniredis; results and the final state are diffed against the model's interleave for the same schedule, which also pins the command structure of each call.",
   note="Trusted as C08 plus the scheduler (goroutine identification, hook). Pipelines are one step on the wire and k SETBIT steps in the model (schedule expanded). Connection-level reordering below command granularity and handle-local fields shared between goroutines are not modelled.", ref="6 C16"),
 "C07": dict(cat="proof", tech="Go-AST translator regenerating lock facts from /repo on every run + Coq proof of mutual exclusion for well-locked methods, re-checked on the regenerated facts by vm_compute; race detector as failing-input search",
   text="Generated/LockFacts.v is rewritten from the sources on every run; C07_facts_ok re-checks inside Coq that every exported method touching guarded state holds the lock (7 listed two-object methods excepted), C07_core_methods_locked pins the update/query methods; the Conc.v theorems prove that under that discipline at most one thread is inside a body, only the holder changes the state, and (C07_serialisable) whenever the lock is free the state is the sequential execution of the acquired bodies in acquisition order, each once and whole, per-thread program order kept. A new unlocked access, or a lock taken after the first use of the receiver, breaks the obligation; the check then searches for a replay: the method against concurrent updates under -race, and an -atomic probe looking for an outcome no sequential order produces.",
   note="Trusted: the translator, sync.RWMutex as an atomic lock, Coq kernel. Not modelled: the Go memory model below mutex granularity, the scheduler.", ref="6 C07"),
 "C15": dict(cat="other", tech="Coq proofs over the reals of the sizing identities (stdlib real axioms) + structural lemmas and an idealised refutation on the model + correspondence of the code's formulas with 200-bit reference values and the Coq probe formulas + statistical acceptance test",
   text="The property is statistical over the hash, so it is only partly a theorem: proved are the Bloom sizing identity (estimate = budget, rounding up is safe), the two Count-Min inequalities, that probe/row positions depend on their index and stay in range, and that cuckoo fingerprints are decimal digits (10^fpl values) which refutes the budget for an accepted configuration. The code's CalculateFilterSize/NumHashes/FingerPrintLength, CMS dimensions and the getIndex/getPositions/rank formulas are diffed against references. Empirical rates are tested with a one-sided 5-sigma bound (a test, not a proof).",
   note="Axioms: ClassicalDedekindReals.sig_forall_dec, sig_not_dec, functional_extensionality_dep, Classical_Prop.classic (standard library Reals). libm trusted for the implementation side.", ref="6 C15"),
 "C08": dict(cat="proof", tech="two Coq models (memory / Redis store + Lua scripts) over the same position functions, each tied to its implementation by extracted-model correspondence; lock-step implementation pairs as failing-input search; shared-rule lemmas proved (partial)",
   text="Every structure has a memory model and a Redis model (store of strings/lists/hashes/sorted sets, every Lua script as a store transformer), each diffed against its own implementation; both are parametric in the same position/fingerprint/rank functions. The two implementations are additionally run in lock-step on common histories (Top-K up to ties, cuckoo until the first relocation). Proved: the shared register rule, positions, ordering, exactness of Lua arithmetic below 2^53. The store-level refinement theorems are not yet proved (partial). One defect repaired (Redis HLL harmonic mean truncation).",
   note="Trusted as C03 plus miniredis + gopher-lua as Redis.", ref="6 C08"),
 "C09": dict(cat="proof", tech="Coq proof (attach rebuilds the handle from the metadata hash; queries/updates depend on immutable handle fields and the store only) for Count-Min + extracted-model correspondence with re-attachment for all five structures",
   text="Theorems for the Redis Count-Min sketch: the constructor's metadata lets attach rebuild exactly (rows, columns, key); Count and Update depend only on those fields and the store, so both handles agree on every later store. For all structures attach is part of the Redis model and the harness re-attaches at random points (also after imports under new keys), drives both handles and compares all answers after every step. Seven metadata defects repaired.",
   note="Trusted as C08. Cross-process sharing adds only that hashing is a fixed function (seeds are constants in the code); not exercised across OS processes yet.", ref="6 C09"),
 "C19": dict(cat="proof", tech="Coq proof (key-derivation injectivity, frame lemma per Redis command, generic non-interference of operations local to disjoint key sets, instantiated for the Redis Count-Min sketch) + correspondence of 2-8 interleaved structures in one database against their models run alone",
   text="Proved: decimal suffixes and row keys are injective for equal-length base keys; every primitive command changes only its own key; operations local to disjoint key sets give, in any interleaving, exactly the answers they give alone (C19_non_interference), and Update/Count of the Redis Count-Min sketch are local to its row keys. Each generated case runs 2-8 live structures of mixed kinds in one miniredis with interleaved histories (creation, re-attachment, import under new keys) and diffs every answer of every structure against that structure's model run alone on an empty store; a monitor checks that a structure's answers change only through operations on its own handles, and that constructor/import keys are fresh. Locality of the other four structures' calls is by correspondence (partial).",
   note="Trusted as C08; freshness of random base keys is assumed (52^16 space, time-seeded) and re-checked by the harness.", ref="6 C19"),
 "C10": dict(cat="proof", tech="Coq proof (import(export s) = s on parsed documents; UTF-8 sanitiser) + extracted-model correspondence on documents, Equals and paired queries",
   text="Export/Import are modelled on parsed JSON documents; theorems: import(export s)=s for Count-Min, HyperLogLog and Top-K on valid-UTF-8 elements; refutation for binary Top-K elements (known finding). Every structure's document, the import into dirty targets, Equals both ways and paired queries before/after further common updates are diffed against the code. Bloom/cuckoo documents are tied by correspondence only so far (partial). Two import defects were repaired.",
   note="Trusted as C03, plus encoding/json and base64 (the harness parses the implementation's bytes), floats opaque (bits<->text table from the implementation).", ref="6 C10"),
 "C11": dict(cat="proof", tech="Coq proof (decode(encode s ++ rest) = (s, |encode s|, rest), returned counts) + byte-exact extracted-model correspondence",
   text="Byte-exact codec models; theorems for Count-Min, HyperLogLog, bucket+cuckoo, Top-K (full heap) and Bloom incl. the bitset's bit packing: exact round trip with arbitrary trailing bytes, WriteTo/ReadFrom counts = bytes written/consumed, back-to-back streams; Top-K partial heap refuted (known finding). The implementation's stream, both counts, consumed bytes, Equals and paired queries are diffed for all five structures. Four count/format defects were repaired.",
   note="Trusted as C03, plus encoding/binary and the third-party bitset format.", ref="6 C11"),
 "C17": dict(cat="proof", tech="Coq proof (Equals sound/reflexive/total/symmetric per structure) + extracted-model correspondence on twins, one-parameter and one-cell differences",
   text="Theorems: Equals true implies equal parameters and payload (hence equal answers), reflexive, never panics on well-formed states of any dimensions; for Bloom, Count-Min, HyperLogLog, cuckoo, Top-K in memory after four repairs. The code's Equals is diffed both ways on twins, single-parameter tweaks, single mutated cells (first/middle/last via hooks) and unrelated pairs, with an answers-vs-Equals monitor.",
   note="Trusted as C03, plus the mutator hooks.", ref="6 C17"),
 "C18": dict(cat="proof", tech="Coq proof (every strict prefix of an image decodes to Err: extension lemma + exact round trip + no-panic) + exhaustive all-prefix correspondence per generated state",
   text="Theorems for Count-Min, HyperLogLog, cuckoo, Top-K, Bloom: for every well-formed state and every cut, ReadFrom returns an error (never success, never panic). For every generated state every strict prefix of the implementation's binary image and of its JSON export is fed to ReadFrom/Import and the outcome class is diffed (JSON prefixes by this sweep only: partial).",
   note="Trusted as C11; json.Unmarshal's rejection of unbalanced text is exercised, not proved.", ref="6 C18"),
 "C04": dict(cat="proof", tech="Coq model of container/heap + Top-K with extracted-model correspondence on Values() and the raw heap array; Coq proof of the heap invariant of container/heap and of the Top-K invariant over all insert histories (in-memory variant)",
   text="A faithful executable model of container/heap (up/down/Push/Pop/Remove) and of Top-K is diffed against the code after every step on Values() and on the heap array (ties, re-insertions, narrow sketches, counts to 2^32); an exact-totals monitor checks every clause of the property on the code's outputs. Proved for the in-memory variant, for every k>=1, sketch dimensions, position function and insert history: Push/Pop/Remove keep the heap order and Pop returns a minimum; Values has exactly min(k, distinct) entries without duplicates in (count desc, element asc) order; true total <= reported count <= current estimate <= total; every unreported element's true total <= every reported count. The Redis variant is tied by correspondence and the C08 pair machine (partial).",
   note="Trusted as C03; container/heap is modelled (and its model verified), the Go library itself is not.", ref="6 C04"),
 "C02": dict(cat="proof", tech="Coq proof (class counting: every live element is found after any history, for power-of-two bucket counts and non-empty fingerprints; multiset conservation of slots) + refutation witnesses by vm_compute on the concrete murmur3 model + extracted-model correspondence",
   text="The full no-false-negative statement is refuted on the faithful model for non-power-of-two bucket counts and for empty fingerprints (witness theorems, replayed on the code as known findings); the eviction-loop defect was repaired. Proved: for bucket counts 2^j, elements with a non-empty fingerprint, non-destructive inserts and removal of live elements only, after EVERY history every element inserted more often than removed is found (C02_live_elements_found_pow2); a returning Insert stored the fingerprint and only moved the others (multiset of slots conserved); Remove succeeds iff Lookup is true. Every Insert/Remove/Lookup outcome and the murmur3 model are diffed against the code on histories that saturate small filters with mirrored random draws; a live-multiset monitor searches for lost elements.",
   note="Trusted as C01, plus math/rand mirrored through rand.Seed. The Redis variant is tied by correspondence and monitors (partial).", ref="6 C02"),
 "C13": dict(cat="proof", tech="Coq proof (slot-count invariant over all histories: Length = inserts - removes = stored entries, capacity, drain) + extracted-model correspondence",
   text="Proved for every hash/configuration/state/random choice: Length moves by +1 exactly on a returning Insert and not at all on any failed one; Remove returns true iff Lookup does and a failed Remove changes nothing. For every configuration whose capacity fits 64 bits and every history on elements with a non-empty fingerprint: Length = returned inserts - successful removes = occupied slots, no bucket exceeds its capacity, a successful Remove takes exactly one entry, and Length 0 implies the filter is literally a new filter (C13_length_accounting). Empty-fingerprint elements refute the stored-entries accounting (witness, known finding). Full slot/counter state is diffed against the code after every step; monitors check Length = inserts - removes = stored entries = sum of counters, capacity, exactly-one removal, drain.",
   note="Trusted as C02. The Redis variant is tied by correspondence and monitors (partial).", ref="6 C13"),
 "C14": dict(cat="proof", tech="Coq proof (exhaustion is signalled; non-destructive failure restores the exact state; destructive failure displaces at most one entry; invariant kept) + extracted-model correspondence with before/after state snapshots",
   text="Proved: exhausting the retries never reports success; Length is unchanged by every failed insert. For every state, element, hash and random choices: a non-destructive 'filter is full' leaves the whole state identical (C14_nondestructive_changes_nothing); a destructive one loses exactly one fingerprint from the multiset of slots (the new one or one stored entry), and Length stays equal to the stored entries. The Redis variant is tied by correspondence and a before/after monitor (partial). The destructive-displacement defect was repaired (fix: commit).",
   note="Trusted as C02.", ref="6 C14"),
 "C01": dict(cat="proof", tech="Coq proof (monotone bit-set invariant over arbitrary histories) + extracted-model correspondence",
   text="Theorem for every filter state, every probe-position function (hence every hash, size, numHashes) and every history: after Insert x every later Lookup x is true; fresh filters report everything absent; constructors clamp size/k to >=1. Tied to the code by differential runs of the extracted model (positions from the code's own getIndex) and a false-negative monitor.",
   note="Trusted: Coq kernel, extraction + OCaml driver, Go harness/generators, bits-and-blooms/bitset semantics as modelled (Set extends, Test beyond length is false), miniredis for the Redis variant.", ref="6 C01"),
 "C05": dict(cat="proof", tech="Coq proof (totality for m>=128, refutations by vm_compute witnesses) + extracted-model correspondence; accuracy clause partial (statistical)",
   text="Proved: Update is total for m>=128 for every hash (index in [1,65]); refuted with witnesses: Update panics for every accepted m<=64, empty sketch counts alpha_m*m. Estimator modelled exactly over rationals with a 2^-40 guard band and diffed against Count under all flag combinations. The positive accuracy claim is statistical over the hash and is not a theorem; it is recorded as a known finding (estimate independent of n).",
   note="Trusted as C01; float rounding of the estimator is bounded by a guard band, the large-range log correction is outside the modelled domain (counted as unmodelled in the evidence).", ref="6 C05"),
 "C06": dict(cat="proof", tech="Coq proof (register semilattice: pointwise max characterisation, set-dependence, merge = union) + extracted-model correspondence",
   text="After the fix: commit the full statement is proved for the in-memory variant: state depends only on the set inserted (any permutation/duplication), merge = sketch of the union, commutative, idempotent, later updates agree, mismatch rejected; for every index/rank function and every m. Tied to the code by differential runs on permuted/duplicated/split streams with registers as the observable.",
   note="Trusted as C01.", ref="6 C06"),
 "C03": dict(cat="proof", tech="Coq proof (cell-sum invariant by induction over histories) + extracted-model correspondence",
   text="Theorems over all rows/cols>=1, all position functions, all histories with total<2^64: true<=Count<=total, exactness for a single element, empty=0; tied to the code by differential runs of the extracted model against CountMinSketch on generated histories, with monitors as the failing-input search.",
   note="Trusted: Coq kernel, ExtrOcamlBasic extraction + OCaml driver, Go harness/generators, go-metro (positions are taken from the code's own getPositions), miniredis for the Redis variant.", ref="6 C03"),
 "C12": dict(cat="proof", tech="Coq proof (linearity of the cell invariant) + extracted-model correspondence",
   text="Theorems: merge succeeds on equal dimensions and yields exactly the matrix/answers of the single sketch fed both streams; commutes; three-way order independence; later updates commute; mismatch rejected. Tied to the code by differential runs incl. a reference sketch fed the combined stream.",
   note="Same trusted base as C03.", ref="6 C12"),
}

def main():
    checks = []
    for p in ALL:
        if p not in CLAIMED:
            continue
        c = CLAIMED[p]
        checks.append({
            "property_id": p,
            "quick_cmd": "./check %s --tier quick" % p,
            "thorough_cmd": "./check %s --tier thorough" % p,
            "evidence_file": "/verif/evidence/%s.json" % p,
            "replay_cmd_template": "./check %s --replay {path}" % p,
            "engine": "coq-model+harness",
            "level_claimed": {"category": c["cat"], "text": c["text"], "design_ref": "DESIGN.md section " + c["ref"]},
            "level_note": c["note"],
            "technique": c["tech"],
        })
    na = [{"property_id": p, "reason": "check not built yet in this revision (planned, see DESIGN.md section 6); not a judgement that proof cannot apply"}
          for p in ALL if p not in CLAIMED]
    m = {
        "version": 1,
        "setup_cmd": "./setup.sh",
        "hooks": {"guard": "verif", "enable": "go build -tags verif (file /repo/verif_hooks.go, //go:build verif)",
                  "baseline_off_cmd": "cd /repo && go test -mod=mod -vet=off -count=1 -timeout 25m ./...",
                  "source_commits": HOOK_COMMITS, "add_only": True},
        "engines": [{"name": "coq-model+harness", "path": "/verif/check",
                     "serves_properties": sorted(CLAIMED.keys()),
                     "kind_free_text": "Coq 8.16 model + theorems (coq/), extracted OCaml model (build/modeldrv), Go differential harness built against /repo with -tags verif"}],
        "checks": checks,
        "not_applicable": na,
        "notes": "Every check rebuilds the harness from /repo's working tree, recompiles its property file and re-runs the correspondence. Known findings: /verif/known-findings.txt.",
    }
    json.dump(m, open("/verif/MANIFEST.json", "w"), indent=1)

if __name__ == "__main__":
    main()
