module verif/racer

go 1.19

require github.com/kwertop/gostatix v0.0.0

require (
	github.com/bits-and-blooms/bitset v1.8.0 // indirect
	github.com/cespare/xxhash/v2 v2.2.0 // indirect
	github.com/dgryski/go-metro v0.0.0-20211217172704-adc40b04c140 // indirect
	github.com/dgryski/go-rendezvous v0.0.0-20200823014737-9f7001d12a5f // indirect
	github.com/redis/go-redis/v9 v9.0.5 // indirect
)

replace github.com/kwertop/gostatix => /repo
