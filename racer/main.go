// racer — failing-input search for C07: stresses one exported method of an in-memory structure
// against concurrent updates on a shared instance under the Go race detector.
// Usage: racer Type.Method   (built with -race; GORACE=halt_on_error=1 makes a race exit 66)
//
//	racer -atomic Type.Method   looks for an outcome no sequential ordering of the calls can
//	produce (lost or doubled update) and exits 67 with a description when it finds one.
package main

import (
	"bytes"
	"encoding/binary"
	"encoding/json"
	"fmt"
	"os"
	"sync"
	"time"

	gx "github.com/kwertop/gostatix"
)

func main() {
	if len(os.Args) < 2 {
		fmt.Println("usage: racer Type.Method")
		os.Exit(2)
	}
	target := os.Args[1]
	// calls that block each other for good (a lock-order inversion, a lock never released) make no
	// progress: every probe finishes within seconds, so after 150 s the probe reports a hang
	time.AfterFunc(150*time.Second, func() {
		fmt.Printf("HANG: the concurrent calls of probe %v did not return within 150 s (callers blocked on each other)\n", os.Args[1:])
		os.Exit(68)
	})
	if target == "-atomic" && len(os.Args) > 2 {
		atomic(os.Args[2])
		return
	}
	var upd, call func(i int)
	switch {
	case has(target, "BloomFilter."):
		f, _ := gx.NewMemBloomFilterWithParameters(1000, 0.01)
		g, _ := gx.NewMemBloomFilterWithParameters(1000, 0.01)
		if len(os.Args) > 2 && os.Args[2] == "named" {
			// the same in-memory bitset under a filter that carries a metadata key (the other public
			// way to build an in-memory filter): whether the lock is taken must not depend on the key
			mk := func() *gx.BloomFilter {
				b := gx.NewMemBloomFilterFromBitSet(make([]uint64, 9586/64+1), 7)
				nf, err := gx.NewBloomFilterWithBitSet(b.GetCap(), b.GetNumHashes(), *b.GetBitSet(), "probe-key")
				if err != nil {
					fmt.Println("cannot build the named filter:", err)
					os.Exit(3)
				}
				return nf
			}
			f, g = mk(), mk()
		}
		upd = func(i int) { f.Insert([]byte(fmt.Sprint("k", i))) }
		call = map[string]func(int){
			"BloomFilter.BloomPositiveRate": func(int) { f.BloomPositiveRate() },
			"BloomFilter.Equals":            func(int) { f.Equals(g) },
			"BloomFilter.Export":            func(int) { f.Export() },
			"BloomFilter.WriteTo":           func(int) { var b bytes.Buffer; f.WriteTo(&b) },
			"BloomFilter.Insert":            func(i int) { f.Insert([]byte(fmt.Sprint("j", i))) },
			"BloomFilter.InsertString":      func(i int) { f.InsertString(fmt.Sprint("j", i)) },
			"BloomFilter.Lookup":            func(i int) { f.Lookup([]byte(fmt.Sprint("k", i))) },
			"BloomFilter.LookupString":      func(i int) { f.LookupString(fmt.Sprint("k", i)) },
		}[target]
	case has(target, "CountMinSketch."):
		s, _ := gx.NewCountMinSketch(4, 64)
		o, _ := gx.NewCountMinSketch(4, 64)
		upd = func(i int) { s.Update([]byte(fmt.Sprint("k", i%7)), 1) }
		call = map[string]func(int){
			"CountMinSketch.Equals":       func(int) { s.Equals(o) },
			"CountMinSketch.Export":       func(int) { s.Export() },
			"CountMinSketch.Merge":        func(int) { s.Merge(o) },
			"CountMinSketch.WriteTo":      func(int) { var b bytes.Buffer; s.WriteTo(&b) },
			"CountMinSketch.Update":       func(i int) { s.Update([]byte("x"), 1) },
			"CountMinSketch.UpdateOnce":   func(i int) { s.UpdateOnce([]byte("x")) },
			"CountMinSketch.UpdateString": func(i int) { s.UpdateString("x", 1) },
			"CountMinSketch.Count":        func(i int) { s.Count([]byte("x")) },
			"CountMinSketch.CountString":  func(i int) { s.CountString("x") },
		}[target]
	case has(target, "CuckooFilter."):
		f := gx.NewCuckooFilter(64, 4, 3)
		o := gx.NewCuckooFilter(64, 4, 3)
		upd = func(i int) {
			defer func() { recover() }()
			f.Insert([]byte(fmt.Sprint("k", i%40)), false)
			f.Remove([]byte(fmt.Sprint("k", i%40)))
		}
		call = map[string]func(int){
			"CuckooFilter.Equals":  func(int) { f.Equals(o) },
			"CuckooFilter.Export":  func(int) { f.Export() },
			"CuckooFilter.Length":  func(int) { f.Length() },
			"CuckooFilter.WriteTo": func(int) { var b bytes.Buffer; f.WriteTo(&b) },
			"CuckooFilter.Lookup":  func(i int) { f.Lookup([]byte("k1")) },
			"CuckooFilter.Insert": func(i int) {
				defer func() { recover() }()
				f.Insert([]byte(fmt.Sprint("j", i%20)), false)
				f.Remove([]byte(fmt.Sprint("j", i%20)))
			},
			"CuckooFilter.Remove": func(i int) { f.Remove([]byte(fmt.Sprint("k", i%40))) },
		}[target]
	case has(target, "HyperLogLog."):
		h, _ := gx.NewHyperLogLog(256)
		o, _ := gx.NewHyperLogLog(256)
		upd = func(i int) { h.Update([]byte(fmt.Sprint("k", i))) }
		call = map[string]func(int){
			"HyperLogLog.Equals":  func(int) { h.Equals(o) },
			"HyperLogLog.Export":  func(int) { h.Export() },
			"HyperLogLog.Merge":   func(int) { h.Merge(o) },
			"HyperLogLog.Reset":   func(int) { h.Reset() },
			"HyperLogLog.WriteTo": func(int) { var b bytes.Buffer; h.WriteTo(&b) },
			"HyperLogLog.Update":  func(i int) { h.Update([]byte(fmt.Sprint("j", i))) },
			"HyperLogLog.Count":   func(i int) { h.Count(false, false) },
		}[target]
	case has(target, "TopK."):
		t := gx.NewTopK(3, 0.1, 0.1)
		o := gx.NewTopK(3, 0.1, 0.1)
		for i := 0; i < 5; i++ {
			t.Insert([]byte(fmt.Sprint("s", i)), 1)
		}
		upd = func(i int) { t.Insert([]byte(fmt.Sprint("k", i%9)), 1) }
		call = map[string]func(int){
			"TopK.Equals":  func(int) { t.Equals(o) },
			"TopK.Export":  func(int) { t.Export() },
			"TopK.Insert":  func(i int) { t.Insert([]byte(fmt.Sprint("j", i%9)), 1) },
			"TopK.Values":  func(int) { t.Values() },
			"TopK.WriteTo": func(int) { defer func() { recover() }(); var b bytes.Buffer; t.WriteTo(&b) },
		}[target]
	}
	if upd == nil || call == nil {
		fmt.Println("no probe for", target)
		os.Exit(3)
	}
	// the method against concurrent updates AND against itself: two callers that only hold a shared
	// lock run at the same time, so whatever the method writes under it races there
	var wg sync.WaitGroup
	wg.Add(3)
	go func() {
		defer wg.Done()
		for i := 0; i < 3000; i++ {
			upd(i)
		}
	}()
	for c := 0; c < 2; c++ {
		go func(c int) {
			defer wg.Done()
			for i := 0; i < 3000; i++ {
				call(i + 5000*c)
			}
		}(c)
	}
	wg.Wait()
	fmt.Println("no race observed for", target)
}

func has(s, prefix string) bool { return len(s) >= len(prefix) && s[:len(prefix)] == prefix }

// parallel runs g goroutines, each calling f(goroutine, i) for i < n, started together.
func parallel(g, n int, f func(w, i int)) {
	var wg sync.WaitGroup
	start := make(chan struct{})
	for w := 0; w < g; w++ {
		wg.Add(1)
		go func(w int) {
			defer wg.Done()
			<-start
			for i := 0; i < n; i++ {
				f(w, i)
			}
		}(w)
	}
	close(start)
	wg.Wait()
}

func fail(format string, a ...interface{}) {
	fmt.Printf("NOT-SERIALISABLE: "+format+"\n", a...)
	os.Exit(67)
}

// atomic: outcome checks against "some sequential ordering of the calls" (C07), per update method.
func atomic(target string) {
	const G = 8
	switch target {
	case "TopK.Insert":
		// every goroutine inserts the same key; in any sequential order (a) a caller that has
		// completed n inserts of the key sees a count of at least n, and (b) at the end the entry
		// holds the total number of inserts (wide sketch: no collisions)
		hotCount := func(t *gx.TopK) uint64 {
			for _, e := range t.Values() {
				if el, c := gx.VerifTopKElement(e); el == "hot" {
					return c
				}
			}
			return 0
		}
		for trial := 0; trial < 300; trial++ {
			t := gx.NewTopK(4, 0.001, 0.999)
			t.Insert([]byte("cold"), 1)
			var bad sync.Once
			var msg string
			parallel(G, 60, func(w, i int) {
				t.Insert([]byte("hot"), 1)
				if c := hotCount(t); c < uint64(i+1) {
					bad.Do(func() {
						msg = fmt.Sprintf("goroutine %d completed %d Insert(hot,1) calls and then read hot=%d from Values()", w, i+1, c)
					})
				}
			})
			if msg != "" {
				fail("TopK: a caller does not observe its own completed updates: %s (trial %d)", msg, trial)
			}
			if got := hotCount(t); got != G*60 {
				fail("TopK: %d goroutines x 60 Insert(hot,1): Values reports hot=%d, every sequential order gives %d (trial %d)", G, got, G*60, trial)
			}
		}
	case "CuckooFilter.Remove":
		for trial := 0; trial < 30000; trial++ {
			f := gx.NewCuckooFilter(16, 4, 4)
			f.Insert([]byte("x"), false)
			var mu sync.Mutex
			trues := 0
			parallel(G, 1, func(w, i int) {
				if f.Remove([]byte("x")) {
					mu.Lock()
					trues++
					mu.Unlock()
				}
			})
			if trues != 1 || f.Length() != 0 {
				fail("Cuckoo: x inserted once, %d concurrent Remove(x): %d returned true, Length=%d (sequentially: 1 and 0) (trial %d)", G, trues, f.Length(), trial)
			}
		}
	case "CuckooFilter.Insert":
		for trial := 0; trial < 300; trial++ {
			f := gx.NewCuckooFilter(64, 4, 6)
			var mu sync.Mutex
			ok := 0
			parallel(G, 20, func(w, i int) {
				defer func() { recover() }()
				if f.Insert([]byte(fmt.Sprintf("k%d-%d", w, i)), false) {
					mu.Lock()
					ok++
					mu.Unlock()
				}
			})
			if int(f.Length()) != ok {
				fail("Cuckoo: %d inserts returned true, Length=%d (trial %d)", ok, f.Length(), trial)
			}
		}
	case "CountMinSketch.Update", "CountMinSketch.UpdateOnce", "CountMinSketch.UpdateString":
		for trial := 0; trial < 300; trial++ {
			s, _ := gx.NewCountMinSketch(3, 64)
			parallel(G, 200, func(w, i int) {
				switch target {
				case "CountMinSketch.UpdateOnce":
					s.UpdateOnce([]byte("x"))
				case "CountMinSketch.UpdateString":
					s.UpdateString("x", 1)
				default:
					s.Update([]byte("x"), 1)
				}
			})
			if c := s.Count([]byte("x")); c != G*200 {
				fail("CMS: %d goroutines x 200 updates of x by 1: Count(x)=%d, sequentially %d (trial %d)", G, c, G*200, trial)
			}
			ref, _ := gx.NewCountMinSketch(3, 64)
			for i := 0; i < G*200; i++ {
				ref.Update([]byte("x"), 1)
			}
			a, _ := s.Export()
			b, _ := ref.Export()
			if !bytes.Equal(a, b) {
				fail("CMS: %d goroutines x 200 updates of x by 1: the exported document differs from the one after the same updates one after another: %s vs %s (trial %d)", G, a, b, trial)
			}
		}
	case "CountMinSketch.WriteTo", "CountMinSketch.Export":
		// every Update adds its count to one cell per row and to the running total, under the lock:
		// in every state a reader can see, each row sums to the total. A snapshot taken while
		// updates run must be one of those states.
		for trial := 0; trial < 60; trial++ {
			s, _ := gx.NewCountMinSketch(4, 16)
			var msg string
			var bad sync.Once
			var wg sync.WaitGroup
			stop := make(chan struct{})
			wg.Add(1)
			go func() {
				defer wg.Done()
				for i := 0; ; i++ {
					select {
					case <-stop:
						return
					default:
					}
					s.Update([]byte(fmt.Sprint("k", i%23)), 7)
				}
			}()
			for n := 0; n < 200; n++ {
				var total uint64
				var sums []uint64
				if target == "CountMinSketch.WriteTo" {
					var b bytes.Buffer
					s.WriteTo(&b)
					w := b.Bytes()
					u := func(i int) uint64 { return binary.BigEndian.Uint64(w[8*i:]) }
					rows, cols := int(u(0)), int(u(1))
					total = u(2)
					for r := 0; r < rows; r++ {
						var sum uint64
						for c := 0; c < cols; c++ {
							sum += u(3 + r*cols + c)
						}
						sums = append(sums, sum)
					}
				} else {
					doc, _ := s.Export()
					var d struct {
						S uint64     `json:"s"`
						M [][]uint64 `json:"m"`
					}
					json.Unmarshal(doc, &d)
					total = d.S
					for _, row := range d.M {
						var sum uint64
						for _, v := range row {
							sum += v
						}
						sums = append(sums, sum)
					}
				}
				for r, sum := range sums {
					if sum != total {
						bad.Do(func() {
							msg = fmt.Sprintf("snapshot %d taken during updates: total=%d but row %d sums to %d (row sums %v)", n, total, r, sum, sums)
						})
					}
				}
			}
			close(stop)
			wg.Wait()
			if msg != "" {
				fail("CMS %s: %s (trial %d)", target, msg, trial)
			}
		}
	case "HyperLogLog.Update":
		for trial := 0; trial < 200; trial++ {
			h, _ := gx.NewHyperLogLog(64)
			ref, _ := gx.NewHyperLogLog(64)
			parallel(G, 50, func(w, i int) { h.Update([]byte(fmt.Sprintf("k%d-%d", w, i))) })
			for w := 0; w < G; w++ {
				for i := 0; i < 50; i++ {
					ref.Update([]byte(fmt.Sprintf("k%d-%d", w, i)))
				}
			}
			a, _ := h.Export()
			b, _ := ref.Export()
			if !bytes.Equal(a, b) {
				fail("HLL: concurrent updates leave registers different from the sequential replay (trial %d)", trial)
			}
		}
	case "BloomFilter.Insert", "BloomFilter.InsertString":
		for trial := 0; trial < 200; trial++ {
			f, _ := gx.NewMemBloomFilterWithParameters(500, 0.01)
			ref, _ := gx.NewMemBloomFilterWithParameters(500, 0.01)
			parallel(G, 50, func(w, i int) { f.Insert([]byte(fmt.Sprintf("k%d-%d", w, i))) })
			for w := 0; w < G; w++ {
				for i := 0; i < 50; i++ {
					ref.Insert([]byte(fmt.Sprintf("k%d-%d", w, i)))
				}
			}
			a, _ := f.Export()
			b, _ := ref.Export()
			if !bytes.Equal(a, b) {
				fail("Bloom: concurrent inserts leave a bitset different from the sequential replay (trial %d)", trial)
			}
		}
	default:
		fmt.Println("no atomicity probe for", target)
		os.Exit(3)
	}
	fmt.Println("no non-serialisable outcome observed for", target)
}
