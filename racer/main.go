// racer — failing-input search for C07: stresses one exported method of an in-memory structure
// against concurrent updates on a shared instance under the Go race detector.
// Usage: racer Type.Method   (built with -race; GORACE=halt_on_error=1 makes a race exit 66)
package main

import (
	"bytes"
	"fmt"
	"os"
	"sync"

	gx "github.com/kwertop/gostatix"
)

func main() {
	if len(os.Args) < 2 {
		fmt.Println("usage: racer Type.Method")
		os.Exit(2)
	}
	target := os.Args[1]
	var upd, call func(i int)
	switch {
	case has(target, "BloomFilter."):
		f, _ := gx.NewMemBloomFilterWithParameters(1000, 0.01)
		g, _ := gx.NewMemBloomFilterWithParameters(1000, 0.01)
		upd = func(i int) { f.Insert([]byte(fmt.Sprint("k", i))) }
		call = map[string]func(int){
			"BloomFilter.BloomPositiveRate": func(int) { f.BloomPositiveRate() },
			"BloomFilter.Equals":            func(int) { f.Equals(g) },
			"BloomFilter.Export":            func(int) { f.Export() },
			"BloomFilter.WriteTo":           func(int) { var b bytes.Buffer; f.WriteTo(&b) },
			"BloomFilter.Insert":            func(i int) { f.Insert([]byte(fmt.Sprint("j", i))) },
			"BloomFilter.InsertString":      func(i int) { f.InsertString(fmt.Sprint("j", i)) },
			"BloomFilter.Lookup":            func(i int) { f.Lookup([]byte(fmt.Sprint("k", i))) },
			"BloomFilter.LookupString":      func(i int) { f.LookupString(fmt.Sprint("k", i)) },
		}[target]
	case has(target, "CountMinSketch."):
		s, _ := gx.NewCountMinSketch(4, 64)
		o, _ := gx.NewCountMinSketch(4, 64)
		upd = func(i int) { s.Update([]byte(fmt.Sprint("k", i%7)), 1) }
		call = map[string]func(int){
			"CountMinSketch.Equals":       func(int) { s.Equals(o) },
			"CountMinSketch.Export":       func(int) { s.Export() },
			"CountMinSketch.Merge":        func(int) { s.Merge(o) },
			"CountMinSketch.WriteTo":      func(int) { var b bytes.Buffer; s.WriteTo(&b) },
			"CountMinSketch.Update":       func(i int) { s.Update([]byte("x"), 1) },
			"CountMinSketch.UpdateOnce":   func(i int) { s.UpdateOnce([]byte("x")) },
			"CountMinSketch.UpdateString": func(i int) { s.UpdateString("x", 1) },
			"CountMinSketch.Count":        func(i int) { s.Count([]byte("x")) },
			"CountMinSketch.CountString":  func(i int) { s.CountString("x") },
		}[target]
	case has(target, "CuckooFilter."):
		f := gx.NewCuckooFilter(64, 4, 3)
		o := gx.NewCuckooFilter(64, 4, 3)
		upd = func(i int) {
			defer func() { recover() }()
			f.Insert([]byte(fmt.Sprint("k", i%40)), false)
			f.Remove([]byte(fmt.Sprint("k", i%40)))
		}
		call = map[string]func(int){
			"CuckooFilter.Equals":  func(int) { f.Equals(o) },
			"CuckooFilter.Export":  func(int) { f.Export() },
			"CuckooFilter.Length":  func(int) { f.Length() },
			"CuckooFilter.WriteTo": func(int) { var b bytes.Buffer; f.WriteTo(&b) },
			"CuckooFilter.Lookup":  func(i int) { f.Lookup([]byte("k1")) },
			"CuckooFilter.Insert": func(i int) {
				defer func() { recover() }()
				f.Insert([]byte(fmt.Sprint("j", i%20)), false)
				f.Remove([]byte(fmt.Sprint("j", i%20)))
			},
			"CuckooFilter.Remove": func(i int) { f.Remove([]byte(fmt.Sprint("k", i%40))) },
		}[target]
	case has(target, "HyperLogLog."):
		h, _ := gx.NewHyperLogLog(256)
		o, _ := gx.NewHyperLogLog(256)
		upd = func(i int) { h.Update([]byte(fmt.Sprint("k", i))) }
		call = map[string]func(int){
			"HyperLogLog.Equals":  func(int) { h.Equals(o) },
			"HyperLogLog.Export":  func(int) { h.Export() },
			"HyperLogLog.Merge":   func(int) { h.Merge(o) },
			"HyperLogLog.Reset":   func(int) { h.Reset() },
			"HyperLogLog.WriteTo": func(int) { var b bytes.Buffer; h.WriteTo(&b) },
			"HyperLogLog.Update":  func(i int) { h.Update([]byte(fmt.Sprint("j", i))) },
			"HyperLogLog.Count":   func(i int) { h.Count(false, false) },
		}[target]
	case has(target, "TopK."):
		t := gx.NewTopK(3, 0.1, 0.1)
		o := gx.NewTopK(3, 0.1, 0.1)
		for i := 0; i < 5; i++ {
			t.Insert([]byte(fmt.Sprint("s", i)), 1)
		}
		upd = func(i int) { t.Insert([]byte(fmt.Sprint("k", i%9)), 1) }
		call = map[string]func(int){
			"TopK.Equals":  func(int) { t.Equals(o) },
			"TopK.Export":  func(int) { t.Export() },
			"TopK.Insert":  func(i int) { t.Insert([]byte(fmt.Sprint("j", i%9)), 1) },
			"TopK.Values":  func(int) { t.Values() },
			"TopK.WriteTo": func(int) { defer func() { recover() }(); var b bytes.Buffer; t.WriteTo(&b) },
		}[target]
	}
	if upd == nil || call == nil {
		fmt.Println("no probe for", target)
		os.Exit(3)
	}
	var wg sync.WaitGroup
	wg.Add(2)
	go func() {
		defer wg.Done()
		for i := 0; i < 3000; i++ {
			upd(i)
		}
	}()
	go func() {
		defer wg.Done()
		for i := 0; i < 3000; i++ {
			call(i)
		}
	}()
	wg.Wait()
	fmt.Println("no race observed for", target)
}

func has(s, prefix string) bool { return len(s) >= len(prefix) && s[:len(prefix)] == prefix }
